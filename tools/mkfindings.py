#!/venv/bin/python
"""Developer aid (never run by a check): (re)build known_findings.json from the triaged list below.
For each finding a witness scenario is searched with the property's own generator, minimised while the
pattern keeps matching, and stored."""
import copy, json, os, sys, time
ROOT = os.path.dirname(os.path.dirname(os.path.abspath(__file__)))
sys.path.insert(0, ROOT); sys.path.insert(0, '/repo'); sys.dont_write_bytecode = True
from engine import runner, findings

BIN = ('binary framer never un-escapes doubled {/} and its frame scan stops at the first }: a frame whose unit, payload or CRC '
       'contains 0x7B/0x7D is truncated, mis-sized or lost (pre-existing; escaping exists only on the send side)')
LIST = [
 ('KF-C05-READBACK', 'C05', {'class': 'state-changed-on-rejected', 'tag': 'dsfault'},
  'FC5/FC6/FC23 read the cells back after writing them: when the datastore fails in that read-back the request is answered with exception 04 although the cells were already changed'),
 ('KF-C07-MBAP-LEN', 'C07', {'class': 'unjustified-delivery', 'framing': 'tcp', 'why': 'mbap-length-inconsistent'},
  'TCP: a frame whose MBAP length disagrees with the length the PDU\'s function code and count fields imply (over-long or short PDU) is delivered; decoders ignore trailing bytes / read what is there'),
 ('KF-C08-FOREIGN-FC', 'C08', {'class': 'foreign-reply-returned', 'mismatch': 'fc'},
  'sync client returns a reply whose function code does not answer the request (any frame read during the call is stored under the request\'s tid)'),
 ('KF-C08-FOREIGN-TID', 'C08', {'class': 'foreign-reply-returned', 'mismatch': 'tid'},
  'sync client returns a reply carrying another transaction id (stale reply of an earlier transaction): reply tid is never compared with the request tid'),
 ('KF-C08-UNIT-WILDCARD', 'C08', {'class': 'foreign-reply-returned', 'mismatch': 'unit', 'request_unit_wildcard': True},
  'requests to unit 0 or 255 accept a reply from any unit (_validate_unit_id treats 0/255 in the expected units as a wildcard)'),
 ('KF-C08-UDP-TRUNCATED', 'C08', {'class': 'foreign-reply-returned', 'kind': 'udp', 'mismatch': 'no-frame'},
  'UDP client reads a reply datagram in pieces (recvfrom(8), then the rest): the first read truncates the datagram, so what is decoded after a retry / foreign frame is not a frame that was received'),
 ('KF-C08-TLS-REPLY', 'C08', {'class': 'good-reply-rejected', 'kind': 'tls'},
  'TLS client cannot receive exception replies or replies to requests without a size prediction: _recv waits for the predicted byte count / reads byte-wise until the timeout and returns an error'),
 ('KF-C12-OVERLONG-PDU', 'C12', {'class': 'overlong-pdu-executed'},
  'a write request followed by extra bytes inside a frame that is otherwise valid (over-long PDU) is executed: decoders ignore trailing bytes'),
 ('KF-C13-LEFTOVER-INPUT', 'C13', {'class': 'no-recovery', 'leftover_input': True},
  'client never discards unconsumed input (stale, duplicate, late replies, garbage) before a new transaction on TCP/UDP (serial flushes only what has already arrived): the next transaction reads the leftover and fails or returns a foreign reply'),
 ('KF-C13-UDP-NO-TIMEOUT', 'C13', {'class': 'hang', 'default_timeout': True},
  'ModbusUdpClient defaults to timeout=None: a lost reply blocks recvfrom for ever'),
 ('KF-C13-UDP-RETRY', 'C13', {'class': 'retry-not-honoured', 'kind': 'udp'},
  'UDP client: a retry switches to partial reads (full=False), recvfrom(8) truncates the reply datagram and the retried transaction times out, so retry_on_empty / retry_on_invalid never deliver the reply'),
 ('KF-C14-TLS-EXCEPTION', 'C14', {'framing': 'tls', 'reply': 'exception'},
  'TLS framing: the client waits for the predicted normal-reply length, so an exception reply (2 bytes) costs the full timeout and is then dropped'),
 ('KF-C15-CONNECT-RACE', 'C15', {'preconnected': False},
  'BaseModbusClient.execute() calls connect() outside the transaction lock: two threads that both find the client unconnected each open a connection and the second assignment replaces the socket the first thread is transacting on, whose reply is lost'),
 ('KF-C16-FIFO-PAIRING', 'C16', {'variant': 'serial', 'context': ['stray-reply-while-pending', 'stray-reply-while-pending+lose']},
  'serial (FIFO) Twisted client: an unsolicited or duplicate reply that arrives while a request is pending is handed to the oldest pending deferred (nothing to match on), shifting every later pairing'),
]
for pid in ('C05', 'C06', 'C07', 'C08', 'C09', 'C10', 'C12', 'C13', 'C14', 'C17'):
    LIST.append(('KF-%s-BINARY-ESCAPE' % pid, pid, {'binary_delim': True}, BIN))


def find(pid, pattern, limit, deadline):
    prop = runner.load_prop(pid)
    kf = {'status': 'open', 'pattern': pattern}
    srcs = []
    for i in range(limit):
        srcs.append(('seed', i))
    best = None
    t0 = time.time()
    for kind, i in srcs:
        if time.time() > deadline:
            break
        scn = prop.generate(runner.scenario_rng(0, pid, 'quick', i), 'quick', i)
        out = prop.execute(scn)
        hit = [v for v in out['violations'] if findings.matches(kf, v['sig'])]
        if hit:
            if best is None or len(json.dumps(scn)) < len(json.dumps(best[0])):
                best = (scn, hit[0])
            if len(json.dumps(scn)) < 1500 or time.time() - t0 > 20:
                break
    if best is None and hasattr(prop, 'systematic'):
        for i, scn in enumerate(prop.systematic('quick')):
            if time.time() > deadline:
                break
            out = prop.execute(scn)
            hit = [v for v in out['violations'] if findings.matches(kf, v['sig'])]
            if hit:
                best = (scn, hit[0])
                break
    if best is None:
        return None
    scn, v = best
    # minimise while the pattern keeps matching
    if hasattr(prop, 'shrink_steps'):
        improved = True
        tries = 0
        while improved and tries < 600 and time.time() < deadline:
            improved = False
            for cand in prop.shrink_steps(scn):
                tries += 1
                if tries > 600 or time.time() > deadline:
                    break
                try:
                    out = prop.execute(cand)
                except Exception:
                    continue
                hit = [x for x in out['violations'] if findings.matches(kf, x['sig'])]
                if hit:
                    scn, v = cand, hit[0]
                    improved = True
                    break
    return scn, v


def main():
    only = sys.argv[1:]
    path = os.path.join(ROOT, 'known_findings.json')
    doc = json.load(open(path))
    old = {f['id']: f for f in doc['findings']}
    out = []
    for fid, pid, pattern, what in LIST:
        if only and fid not in only and pid not in only:
            if fid in old:
                out.append(old[fid])
            continue
        r = find(pid, pattern, 60000, time.time() + 90)
        if r is None:
            print('NOT FOUND', fid, '(kept as it was)' if fid in old else '')
            if fid in old:
                out.append(old[fid])
            continue
        scn, v = r
        out.append({'id': fid, 'property': pid, 'status': 'open', 'what': what, 'pattern': pattern,
                    'example_signature': v['sig'], 'example_message': v['msg'], 'scenario': scn})
        print('ok', fid, len(json.dumps(scn)), v['msg'][:100])
    # entries recorded with tools/addfinding.py (not in LIST) are kept
    done = set(f['id'] for f in out)
    out += [f for fid, f in old.items() if fid not in done]
    doc['findings'] = sorted(out, key=lambda f: f['id'])
    json.dump(doc, open(path, 'w'), indent=1, sort_keys=True)


main()
