#!/bin/bash
# developer aid: every quick check under several VERIF_SEED values; prints only non-zero exits and their violations
cd "$(dirname "$0")/.."
mkdir -p out
for sd in ${SEEDS:-1 2 3 4 5 6}; do
  for p in C04 C05 C06 C07 C08 C09 C10 C11 C12 C13 C14 C15 C16 C17; do
    VERIF_SEED=$sd VERIF_BUDGET_S=${BUDGET:-25} /venv/bin/python check.py $p --tier ${TIER:-quick} > out/sweep_${p}_$sd.log 2>&1
    rc=$?
    echo "seed=$sd $p exit=$rc $(grep '^done' out/sweep_${p}_$sd.log | cut -c1-120)"
    if [ $rc -ne 0 ]; then grep -A2 '^VIOLATION\|^HARNESS' out/sweep_${p}_$sd.log | cut -c1-400; fi
  done
done
