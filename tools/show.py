#!/venv/bin/python
"""tools/show.py <Cxx> <index> [seed] [tier]  -- run one generated scenario verbosely (debug aid)"""
import sys, json
sys.path.insert(0, '/verif'); sys.path.insert(0, '/repo')
sys.dont_write_bytecode = True
from engine import runner
pid = sys.argv[1].upper(); idx = int(sys.argv[2]) if sys.argv[2].isdigit() else 0; seed = int(sys.argv[3]) if len(sys.argv) > 3 else 0
tier = sys.argv[4] if len(sys.argv) > 4 else 'quick'
prop = runner.load_prop(pid)
if sys.argv[2].endswith('.json'):
    scn = json.load(open(sys.argv[2])); scn = scn.get('scenario', scn)
else:
    scn = prop.generate(runner.scenario_rng(seed, pid, tier, idx), tier, idx)
brief = {k: v for k, v in scn.items() if k not in ('units',)}
print(json.dumps(brief, indent=None)[:3000])
if hasattr(prop, 'debug'):
    prop.debug(scn)
out = prop.execute(scn)
for v in out['violations']:
    print('VIOL', json.dumps(v['sig'], sort_keys=True), '\n   ', v['msg'][:500])
print({k: out[k] for k in ('inconclusive', 'nontrivial', 'vtime', 'steps', 'faults', 'probes', 'cell')})
