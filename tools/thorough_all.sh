#!/bin/bash
# developer aid: every thorough check once (about 2.5 h); prints exit codes and violations
cd "$(dirname "$0")/.."
mkdir -p out
for p in C04 C05 C06 C07 C08 C09 C10 C11 C12 C13 C14 C15 C16 C17; do
  VERIF_SEED=${VERIF_SEED:-0} /venv/bin/python check.py $p --tier thorough > out/thorough_$p.log 2>&1
  rc=$?
  cp evidence/$p.json out/thorough_evidence_$p.json
  echo "$p exit=$rc $(grep '^done' out/thorough_$p.log | cut -c1-140)"
  if [ $rc -ne 0 ]; then grep -A2 '^VIOLATION\|^HARNESS' out/thorough_$p.log | cut -c1-400; fi
done
