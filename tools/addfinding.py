#!/venv/bin/python
"""tools/addfinding.py <replay.json> <finding-id> '<what fails>' '<pattern json>'  -- developer aid: record a triaged
genuine defect in known_findings.json (never used by a check at run time)."""
import json, sys, os
ROOT = os.path.dirname(os.path.dirname(os.path.abspath(__file__)))
rp, fid, what, pat = sys.argv[1:5]
doc = json.load(open(rp))
kf = json.load(open(os.path.join(ROOT, 'known_findings.json')))
kf['findings'] = [f for f in kf['findings'] if f['id'] != fid]
kf['findings'].append({'id': fid, 'property': doc['property'], 'status': 'open', 'what': what,
                       'pattern': json.loads(pat), 'example_signature': doc['signature'], 'example_message': doc['message'],
                       'scenario': doc['scenario']})
kf['findings'].sort(key=lambda f: f['id'])
json.dump(kf, open(os.path.join(ROOT, 'known_findings.json'), 'w'), indent=1, sort_keys=True)
print('recorded', fid)
