#!/venv/bin/python
"""Developer aid: markdown table of the measured coverage in the COMMITTED evidence files (git show REV:evidence/..)."""
import json, subprocess, sys
rev = sys.argv[1] if len(sys.argv) > 1 else 'HEAD'
print('| id | wall s | runs | runs/h | distinct non-trivial | simulated s | cells | fault kinds fired (total) | known findings hit |')
print('|---|---|---|---|---|---|---|---|---|')
for i in range(4, 18):
    pid = 'C%02d' % i
    e = json.loads(subprocess.run(['git', 'show', '%s:evidence/%s.json' % (rev, pid)], capture_output=True, text=True, cwd='/verif').stdout)
    c = e['coverage']
    ff = c.get('faults_fired') or {}
    print('| %s | %.0f | %d | %.1f M | %d | %.0f | %d | %s | %s |' % (
        pid, e.get('wall_s', 0), c['evaluations'], c['runs_per_hour'] / 1e6, c['distinct_nontrivial'], c['simulated_seconds'],
        len(c['cells']), ', '.join('%s %d' % (k, v) for k, v in sorted(ff.items())) or '-',
        ', '.join('%s %d' % (k.split('-', 2)[2], v) for k, v in sorted((c.get('known_finding_hits_in_search') or {}).items())) or '-'))
