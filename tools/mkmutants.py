#!/venv/bin/python
"""Developer aid: (re)generate mutants/*.diff - realistic source changes that must be caught by the named check.
Each mutant is an (file, old, new) edit applied to a scratch worktree of /repo (outside /repo and /verif)."""
import json, os, subprocess, sys
WT = '/tmp/mutwork'
OUT = '/verif/mutants'
M = [
 ('c04_fc23_read_before_write', 'C04', 'pymodbus/register_read_message.py',
  """        context.setValues(self.function_code, self.write_address,
                          self.write_registers)
        registers = context.getValues(self.function_code, self.read_address,
                                      self.read_count)
""", """        registers = context.getValues(self.function_code, self.read_address,
                                      self.read_count)
        context.setValues(self.function_code, self.write_address,
                          self.write_registers)
"""),
 ('c04_fc22_masks_input_registers', 'C04', 'pymodbus/interfaces.py',
  "    __fx_mapper.update([(i, 'h') for i in [3, 6, 16, 22, 23]])\n",
  "    __fx_mapper.update([(i, 'h') for i in [3, 6, 16, 23]] + [(22, 'i')])\n"),
 ('c04_zero_mode_dropped_in_long_set', 'C04', 'pymodbus/datastore/context.py',
  """        if not self.zero_mode:
            address = address + 1
        _logger.debug("setValues[%d] %d:%d" % (fx, address, len(values)))
""", """        if not self.zero_mode and len(values) < 40:
            address = address + 1
        _logger.debug("setValues[%d] %d:%d" % (fx, address, len(values)))
"""),
 ('c05_fc3_limit_126', 'C05', 'pymodbus/register_read_message.py',
  """class ReadHoldingRegistersRequest(ReadRegistersRequestBase):""", None),
 ('c05_fc16_no_address_validation', 'C05', 'pymodbus/register_write_message.py',
  """        if not context.validate(self.function_code, self.address, self.count):
            return self.doException(merror.IllegalAddress)

        context.setValues(self.function_code, self.address, self.values)
        return WriteMultipleRegistersResponse(self.address, self.count)
""", """        if self.count > 1 and not context.validate(self.function_code, self.address, self.count - 1):
            return self.doException(merror.IllegalAddress)

        context.setValues(self.function_code, self.address, self.values)
        return WriteMultipleRegistersResponse(self.address, self.count)
"""),
 ('c05_fc23_write_before_read_check', 'C05', 'pymodbus/register_read_message.py',
  """        if not context.validate(self.function_code, self.read_address,
                                self.read_count):
            return self.doException(merror.IllegalAddress)
        context.setValues(self.function_code, self.write_address,
                          self.write_registers)
""", """        context.setValues(self.function_code, self.write_address,
                          self.write_registers)
        if not context.validate(self.function_code, self.read_address,
                                self.read_count):
            return self.doException(merror.IllegalAddress)
"""),
 ('c06_ascii_reset_on_incomplete', 'C06', 'pymodbus/framer/ascii_framer.py',
  """                self.advanceFrame()
            else:
                break
""", """                self.advanceFrame()
            else:
                self.resetFrame()
                break
"""),
 ('c06_socket_single_frame_per_read', 'C06', 'pymodbus/framer/socket_framer.py',
  """                    if self._validate_unit_id(unit, single):
                        self._process(callback)
                    else:""", """                    if self._validate_unit_id(unit, single):
                        self._process(callback)
                        if len(self._buffer) < 12:
                            self.resetFrame()
                    else:"""),
 ('c07_rtu_crc_ignored_for_short_frames', 'C07', 'pymodbus/framer/rtu_framer.py',
  """            if checkCRC(data, crc_val):
                return True""", """            if checkCRC(data, crc_val) or (frame_size == 5 and crc_val & 0xff == 0):
                return True"""),
 ('c07_lrc_mod_128', 'C07', 'pymodbus/utilities.py',
  """    return computeLRC(data) == check""", """    return (computeLRC(data) & 0x7f) == (check & 0x7f)"""),
 ('c07_crc_high_byte_only', 'C07', 'pymodbus/utilities.py',
  """    return computeCRC(data) == check""", """    return (computeCRC(data) & 0xff00) == (check & 0xff00)"""),
 ('c08_unit_filter_always_true', 'C08', 'pymodbus/framer/__init__.py',
  """            return self._header['uid'] in units""", """            return self._header['uid'] in units or len(units) == 1"""),
 ('c08_cached_reply_returned', 'C08', 'pymodbus/transaction.py',
  """                    response = self.getTransaction(request.transaction_id)
                    if not response:
                        if len(self.transactions):""", """                    response = self.getTransaction(request.transaction_id)
                    self._last = response or getattr(self, '_last', None)
                    if not response and request.function_code == 3:
                        response = self._last
                    if not response:
                        if len(self.transactions):"""),
 ('c09_asyncio_tid_not_copied', 'C09', 'pymodbus/server/async_io.py',
  """            response.transaction_id = request.transaction_id
            response.unit_id = request.unit_id
            self.send(response, *addr)""", """            response.unit_id = request.unit_id
            self.send(response, *addr)"""),
 ('c09_sync_exception_sent_twice', 'C09', 'pymodbus/server/sync.py',
  """            response.transaction_id = request.transaction_id
            response.unit_id = request.unit_id
            self.send(response)""", """            response.transaction_id = request.transaction_id
            response.unit_id = request.unit_id
            self.send(response)
            if response.function_code > 0x80 and request.function_code == 23:
                self.send(response)"""),
 ('c10_broadcast_first_unit_only', 'C10', 'pymodbus/server/sync.py',
  """                for unit_id in self.server.context.slaves():
                    response = request.execute(self.server.context[unit_id])""", """                for unit_id in self.server.context.slaves()[:1]:
                    response = request.execute(self.server.context[unit_id])"""),
 ('c10_ignore_missing_only_low_units_twisted', 'C10', 'pymodbus/server/asynchronous.py',
  """            if self.factory.ignore_missing_slaves:
                return # the client will simply timeout waiting for a response""", """            if self.factory.ignore_missing_slaves and request.unit_id < 128:
                return # the client will simply timeout waiting for a response"""),
 ('c11_binary_bad_crc_blocks', 'C11', 'pymodbus/framer/binary_framer.py',
  """            else:
                # a complete frame whose CRC does not match: drop just it
                _logger.debug("Frame check failed, ignoring!!")
                self.advanceFrame()""", """            else:
                # a complete frame whose CRC does not match
                _logger.debug("Frame check failed, ignoring!!")
                break"""),
 ('c11_rtu_waits_for_oversize', 'C11', 'pymodbus/framer/rtu_framer.py',
  """        return len(self._buffer) >= min(size, 256)""", """        return len(self._buffer) >= size"""),
 ('c12_twisted_udp_no_reset', 'C12', 'pymodbus/server/asynchronous.py',
  """            finally:
                # a datagram is self contained: never carry what is left of
                # one (or of a failed decode) over into the next
                self.framer.resetFrame()""", """            finally:
                pass"""),
 ('c13_no_close_on_failure', 'C13', 'pymodbus/transaction.py',
  """                InvalidMessageReceivedException) as msg:
            self.client.close()
""", """                InvalidMessageReceivedException) as msg:
"""),
 ('c13_retry_counter_not_decremented', 'C13', 'pymodbus/transaction.py',
  """                        full = False
                        broadcast = False
                        retries -= 1""", """                        full = False
                        broadcast = False
                        retries -= (0 if (self.backoff and self.backoff < 0.05) else 1)"""),
 ('c13_invalid_message_not_caught', 'C13', 'pymodbus/transaction.py',
  """        except (socket.error, ModbusIOException,
                InvalidMessageReceivedException) as msg:""", """        except (socket.error, ModbusIOException) as msg:"""),
 ('c14_bit_size_without_remainder', 'C14', 'pymodbus/bit_read_message.py',
  """        count = self.count//8
        if self.count % 8:
            count += 1""", """        count = self.count//8
        if self.count % 8 > 1:
            count += 1"""),
 ('c14_long_reply_two_short', 'C14', 'pymodbus/transaction.py',
  """            return self.base_adu_size + expected_pdu_size
""", """            return self.base_adu_size + expected_pdu_size - (2 if expected_pdu_size > 300 else 0)
"""),
 ('c15_no_lock', 'C15', 'pymodbus/transaction.py',
  """        with self._transaction_lock:
            try:
                _logger.debug("Current transaction state - {}".format(""", """        if True:
            try:
                _logger.debug("Current transaction state - {}".format("""),
 ('c15_new_lock_per_call', 'C15', 'pymodbus/transaction.py',
  """        with self._transaction_lock:
            try:
                _logger.debug("Current transaction state - {}".format(""", """        with RLock():
            try:
                _logger.debug("Current transaction state - {}".format("""),
 ('c16_tid_without_mask', 'C16', 'pymodbus/transaction.py',
  """        self.tid = (self.tid + 1) & 0xffff""", """        self.tid = (self.tid + 1) & 0x1ffff"""),
 ('c16_connection_lost_keeps_last_pending', 'C16', 'pymodbus/client/asynchronous/twisted/__init__.py',
  """        for tid in list(self.transaction):""", """        for tid in list(self.transaction)[:-1] or list(self.transaction):"""),
 ('c16_answered_request_stays_pending', 'C16', 'pymodbus/client/asynchronous/twisted/__init__.py',
  """            handler = self.transaction.getTransaction(tid)
            if handler:
                handler.callback(reply)""", """            handler = self.transaction.getTransaction(tid)
            if handler:
                handler.callback(reply)
                if len(list(self.transaction)) == 0:
                    self.transaction.addTransaction(handler, tid)"""),
 ('c17_asyncio_shared_framer', 'C17', 'pymodbus/server/async_io.py',
  """            self.framer = self.server.framer(self.server.decoder, client=None)
""", """            if not hasattr(self.server, '_framer_instance'):
                self.server._framer_instance = self.server.framer(self.server.decoder, client=None)
            self.framer = self.server._framer_instance
"""),
 ('c17_twisted_unit_not_copied', 'C17', 'pymodbus/server/asynchronous.py',
  """        response.transaction_id = request.transaction_id
        response.unit_id = request.unit_id
        self._send(response)""", """        response.transaction_id = request.transaction_id
        self._send(response)"""),
 ('c08_fifo_values_from_count_field', 'C08', 'pymodbus/file_message.py',
  """        for index in range(0, (byte_count - 2) // 2):
""", """        for index in range(0, _ - 4):
"""),
 ('c14_plus_statistics_prediction', 'C14', 'pymodbus/diag_message.py',
  """        return 1 + 2 + 2 + data
""", """        return 1 + 2 + 2 + 2 + data
"""),
 ('c08_rtu_diag_reply_always_8', 'C08', 'pymodbus/diag_message.py',
  """            return cls._rtu_frame_size + 2 + 108
""", """            return cls._rtu_frame_size
"""),
 ('c14_fc3_prediction_one_short', 'C14', 'pymodbus/register_read_message.py',
  """        return 1 + 1 + 2 * self.count
""", """        return 1 + 1 + 2 * self.count - (1 if self.count == 125 else 0)
"""),
 ('c09_tw_udp_answers_silent_responses', 'C09', 'pymodbus/server/asynchronous.py',
  """        if response.should_respond:
            self._send(response, addr)
""", """        self._send(response, addr)
"""),
 ('c11_ascii_nonhex_raises', 'C11', 'pymodbus/framer/ascii_framer.py',
  """            except ValueError:
                # not hex digits (or an odd number of them): a bad frame
                return False
""", """            except ZeroDivisionError:
                return False
"""),
 ('c11_rtu_undecodable_frame_kept', 'C11', 'pymodbus/framer/rtu_framer.py',
  """            if not error:
                self.advanceFrame()
            raise
""", """            raise
"""),
 ('c12_aio_reset_stops_all_connections', 'C12', 'pymodbus/server/async_io.py',
  """        if self.client_address in self.server.active_connections:
            self.server.active_connections.pop(self.client_address)
""", """        if exc is not None:
            # the connection broke: drop whatever state the server holds
            for conn in list(self.server.active_connections.values()):
                conn.running = False
                conn.handler_task.cancel()
            self.server.active_connections = {}
        elif self.client_address in self.server.active_connections:
            self.server.active_connections.pop(self.client_address)
"""),
 ('c13_failed_transaction_returns_none', 'C13', 'pymodbus/transaction.py',
  """                            response = self.getTransaction(tid=0)
                        if not response:
""", """                            response = self.getTransaction(tid=0)
                        else:
"""),
 ('c07_ascii_nonhex_accepted_again', 'C07', 'pymodbus/framer/ascii_framer.py',
  """            if len(body) % 2 or body.strip(b'0123456789ABCDEFabcdef'):
""", """            if len(body) % 2:
"""),
]


def main():
    index = {}
    # scratch worktree of /repo HEAD outside /repo and /verif; created here, removed at the end
    subprocess.run(['git', '-C', '/repo', 'worktree', 'remove', '--force', WT], capture_output=True)
    subprocess.run(['git', '-C', '/repo', 'worktree', 'add', '-q', '--detach', WT, 'HEAD'], check=True)
    for name, pid, path, old, new in M:
        if new is None:
            continue
        subprocess.run(['git', '-C', WT, 'checkout', '-q', '--', '.'], check=True)
        fp = os.path.join(WT, path)
        s = open(fp).read()
        if old not in s:
            print('ANCHOR MISSING', name)
            continue
        if s.count(old) > 1 and name not in ('c15_no_lock',):
            s = s.replace(old, new, 1)
        else:
            s = s.replace(old, new, 1)
        open(fp, 'w').write(s)
        diff = subprocess.run(['git', '-C', WT, 'diff'], capture_output=True, text=True).stdout
        open(os.path.join(OUT, name + '.diff'), 'w').write(diff)
        index[name] = {'property': pid, 'file': path}
    subprocess.run(['git', '-C', WT, 'checkout', '-q', '--', '.'], check=True)
    json.dump(index, open(os.path.join(OUT, 'index.json'), 'w'), indent=1, sort_keys=True)
    print('wrote', len(index), 'mutants')
    subprocess.run(['git', '-C', '/repo', 'worktree', 'remove', '--force', WT], capture_output=True)


main()
