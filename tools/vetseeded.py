#!/venv/bin/python
"""tools/vetseeded.py <src_dir_with_patch.diff_demo.py_notes.md> <seeded-id> <property> "<needs>"
Confirms an independently written breaking change in a fresh scratch worktree (outside /repo and /verif):
patch applies, the repository's test suite still shows 354 passed, demo fails with the change and passes without.
On success copies it to /verif/seeded/<id>/ with meta.json."""
import json, os, shutil, subprocess, sys
src, sid, pid, needs = sys.argv[1:5]
wt = '/tmp/vet-wt'


def sh(cmd, **kw):
    return subprocess.run(cmd, shell=True, capture_output=True, text=True, **kw)


sh('git -C /repo worktree remove --force %s' % wt)
assert sh('git -C /repo worktree add -q %s HEAD' % wt).returncode == 0
try:
    demo = open(os.path.join(src, 'demo.py')).read()
    # the demo imports pymodbus from its author's worktree: point it at the vetting worktree
    import re
    demo_here = re.sub(r"/tmp/sa/C\d\d[a-z]?", wt, demo)
    open(os.path.join(wt, '_demo.py'), 'w').write(demo_here)
    r0 = sh('cd %s && timeout 120 /venv/bin/python _demo.py' % wt)
    a = sh('git -C %s apply %s' % (wt, os.path.join(src, 'patch.diff')))
    if a.returncode:
        print('PATCH DOES NOT APPLY', a.stderr[:300]); sys.exit(1)
    r1 = sh('cd %s && timeout 120 /venv/bin/python _demo.py' % wt)
    t = sh('cd %s && /venv/bin/python -m pytest -q -p no:cacheprovider --timeout=120 --continue-on-collection-errors 2>&1 | tail -1' % wt,
           env=dict(os.environ, PYTHONDONTWRITEBYTECODE='1'))
    line = t.stdout.strip()
    print('demo without change: exit', r0.returncode, '| with change: exit', r1.returncode, '| suite:', line)
    ok = r0.returncode == 0 and r1.returncode != 0 and '354 passed' in line
    if not ok:
        print('NOT CONFIRMED'); print(r0.stdout[-300:], r0.stderr[-300:]); print(r1.stdout[-300:], r1.stderr[-300:]); sys.exit(1)
    dst = os.path.join('/verif/seeded', sid)
    os.makedirs(dst, exist_ok=True)
    shutil.copy(os.path.join(src, 'patch.diff'), os.path.join(dst, 'patch.diff'))
    open(os.path.join(dst, 'demo.py'), 'w').write(demo)
    if os.path.exists(os.path.join(src, 'notes.md')):
        shutil.copy(os.path.join(src, 'notes.md'), os.path.join(dst, 'notes.md'))
    meta = {'property': pid, 'origin': 'independent sub-agent given only the property text and a scratch worktree',
            'needs_to_manifest': needs,
            'confirmed': {'demo_exit_unchanged': r0.returncode, 'demo_exit_changed': r1.returncode, 'test_suite_with_change': line,
                          'how': 'fresh worktree of /repo HEAD under /tmp, git apply patch.diff, pytest, demo.py (path rewritten to that worktree)'},
            'demo_output_with_change': (r1.stdout + r1.stderr)[-600:]}
    json.dump(meta, open(os.path.join(dst, 'meta.json'), 'w'), indent=1)
    print('CONFIRMED ->', dst)
finally:
    sh('git -C /repo worktree remove --force %s' % wt)
