#!/bin/bash
# developer aid: run every registered quick check once and validate the evidence files
cd /verif
for p in C04 C05 C06 C07 C08 C09 C10 C11 C12 C13 C14 C15 C16 C17; do
  /venv/bin/python check.py $p --tier ${1:-quick} > out/last_$p.log 2>&1
  echo "$p exit=$? $(grep -c '^KNOWN-FINDING:' out/last_$p.log) known, $(grep -c '^VIOLATION' out/last_$p.log) violations; $(grep '^done' out/last_$p.log | cut -c1-150)"
done
python3-vt - <<'PY'
import json, jsonschema, glob
s = json.load(open('/root/.vp/EVIDENCE.schema.json'))
for f in sorted(glob.glob('/verif/evidence/*.json')):
    try:
        jsonschema.validate(json.load(open(f)), s); print('evidence ok', f)
    except Exception as e:
        print('EVIDENCE INVALID', f, str(e)[:200])
PY
