#!/venv/bin/python
"""Regenerates /verif/MANIFEST.json from the property modules (single source of truth for ids, budgets, texts)."""
import json, sys, os
ROOT = os.path.dirname(os.path.dirname(os.path.abspath(__file__)))
sys.path.insert(0, ROOT); sys.path.insert(0, '/repo')
sys.dont_write_bytecode = True
from engine import runner

LEVEL_TEXT = {
 'C04': 'Seeded deterministic simulation: the real server front-ends (threads under a baton scheduler, asyncio on a virtual-time loop, Twisted protocols on fake transports) serve generated request histories; every executed request is compared in lock-step with an independent spec-derived register-file model (responses byte-exact, full dump of all tables after every request). Exploration, not proof: evidence lists runs, cells and layouts reached.',
 'C05': 'Seeded simulation biased to the invalid side (every limit, every block edge, inconsistent byte counts, coil words, unassigned codes) plus injected datastore failures at call k; oracle is the exception code the statement prescribes and before/after dump equality. Exploration.',
 'C06': 'The arrival schedule of the bytes is the simulated nondeterminism: the same stream is delivered under generated cut sets / empty reads / coalescing and compared with one-frame-per-read delivery; plus a systematic sweep of every single cut, byte-wise delivery and two/three-frame reads over a corpus of every message class. Exploration with a bounded exhaustive sweep.',
 'C07': 'Fault injection on the byte stream (bit flips, bursts, substitution, deletion, insertion, truncation, extension) with an independent reference receiver deciding which deliveries the bytes justify; systematic single-bit / truncation / double-bit sweep on small frames. Exploration with a bounded exhaustive sweep.',
 'C08': 'Real synchronous clients on simulated sockets/serial ports/virtual clock against a scripted reference server; stale, foreign and late frames injected per transmission attempt; identity of the returned object is tied to the bytes received during the call through an observation proxy on the decoder. Exploration.',
 'C09': 'Real server front-ends under simulation, fault-free network, one-per-read and pipelined request sequences; the output byte stream of every connection is parsed by the independent codec and matched one-to-one against the requests that must be answered. Exploration.',
 'C10': 'As C09/C04 with hosted-unit sets, addressed units and both flags swept; per-unit dumps after every executed request decide which datastore a request reached; broadcast fan-out counted per unit. Exploration.',
 'C11': 'Bounded liveness under fault injection: a garbage phase, then faults stop and valid frames keep arriving; every frame beyond a grace window of two maximum frames must be delivered and the backlog must stay bounded. Exploration.',
 'C12': 'Hostile-input fault injection against every front-end with a concurrent well-behaved connection and a later probe connection; escape of exceptions from serving loops, justification of every datastore change by the reference receiver, and service to the other connections are checked. Exploration.',
 'C13': 'Virtual-time simulation of the retry/timeout logic: per-attempt fault scripts (systematic up to length 2, seeded up to 5) for every client kind and retry setting; returns-in-bounded-virtual-time, transmission count, honoured retry options and recovery on a healthy follow-up are checked. Fault enumeration for the systematic part, exploration for the rest.',
 'C14': 'The real serial/TLS-framing client and the REAL pymodbus server run against each other over one simulated line; the transport log decides whether the client read exactly the frame the server wrote (no short read, no wait for bytes that never come) for a sweep of quantities. Exploration with a bounded sweep.',
 'C15': 'Schedule exploration: 2-4 caller threads (baton-passed OS threads) share one real client; the seeded scheduler chooses who runs at every transport operation (and at selected line events in the thorough tier); systematic one/two-deviation schedules for 2x1. History oracle on kernel sequence numbers: disjoint transaction intervals, own reply, no deadlock. Exploration.',
 'C16': 'Histories of pipelined requests, reply permutations, unsolicited/duplicate replies and connection loss are replayed on the real Twisted client protocols and on a small pending-set model; all permutations for N<=5, random above, tid wrap batches in the thorough tier. Exploration with a bounded exhaustive part.',
 'C17': 'Differential simulation: the same scenario on every front-end of a family under serialised delivery (byte-identical outputs, identical dumps), under scheduler-chosen interleavings (each against the model in its observed order) and with a disturbing extra connection (isolation). Exploration.',
}
NOTE = ('Trusted base: the simulator (sim/*.py: baton scheduler, virtual clock, simulated sockets/serial/asyncio loop/Twisted transports), '
        'the reference codec/data model/receiver (ref/*.py, written from the Modbus specifications, no shared code with pymodbus) and the per-property oracle. '
        'Stubbed: OS sockets, pyserial, selector loop, reactor, TLS, wall clock, thread scheduling. A clean batch is evidence over the sampled scenarios, not proof.')
TECH = {
 'C04': 'deterministic simulation + lock-step reference model', 'C05': 'deterministic simulation + fault injection (datastore) + reference model',
 'C06': 'deterministic simulation of byte-arrival schedules (differential vs. aligned delivery)', 'C07': 'stream fault injection + reference receiver',
 'C08': 'deterministic simulation with scripted peer fault injection', 'C09': 'deterministic simulation + history check of the output stream',
 'C10': 'deterministic simulation + per-unit reference model', 'C11': 'fault injection + bounded-liveness check after faults stop',
 'C12': 'hostile-input fault injection under deterministic simulation', 'C13': 'virtual-time simulation + per-attempt fault scripts',
 'C14': 'deterministic simulation of real client against real server; transport-log oracle', 'C15': 'seeded schedule exploration of baton-passed threads',
 'C16': 'history replay on real protocol objects vs. pending-set model', 'C17': 'differential deterministic simulation across front-ends',
}
REF = {'C04': '5 (C04)', 'C05': '5 (C05)', 'C06': '5 (C06)', 'C07': '5 (C07)', 'C08': '5 (C08)', 'C09': '5 (C09)', 'C10': '5 (C10)',
       'C11': '5 (C11)', 'C12': '5 (C12)', 'C13': '5 (C13)', 'C14': '5 (C14)', 'C15': '5 (C15)', 'C16': '5 (C16)', 'C17': '5 (C17)'}
old = json.load(open(os.path.join(ROOT, 'MANIFEST.json')))
checks = []
for pid in sorted(LEVEL_TEXT):
    prop = runner.load_prop(pid)
    checks.append({
        'property_id': pid,
        'quick_cmd': '/venv/bin/python check.py %s --tier quick' % pid,
        'thorough_cmd': '/venv/bin/python check.py %s --tier thorough' % pid,
        'evidence_file': '/verif/evidence/%s.json' % pid,
        'replay_cmd_template': '/venv/bin/python check.py --replay {path}',
        'engine': 'dst',
        'level_claimed': {'category': 'exploration', 'text': LEVEL_TEXT[pid], 'design_ref': 'DESIGN.md section ' + REF[pid]},
        'level_note': NOTE,
        'technique': TECH[pid],
    })
old['checks'] = checks
old['setup_cmd'] = "/venv/bin/python -c \"import sys; sys.path.insert(0, '/repo'); import pymodbus, twisted, serial; assert pymodbus.__file__.startswith('/repo/')\""
old['engines'] = [{'name': 'dst', 'path': '/verif/check.py', 'serves_properties': sorted(LEVEL_TEXT),
                   'kind_free_text': 'deterministic simulation with fault injection: sim/ (kernel, net, seams, aio, frontends), harness/ (srv, rx, cli, twc), ref/ (codec, device, receiver), engine/ (runner, shrink, findings), props/cXX.py'}]
old['notes'] = ('VERIF_SEED seeds every generated scenario (blake2(seed, property, tier, index)); VERIF_BUDGET_S overrides the time budget; '
                'VERIF_NPROC the worker count. exit 0 pass / 1 VIOLATION / 2 harness error / 3 replay diverged. Known findings: known_findings.json.')
json.dump(old, open(os.path.join(ROOT, 'MANIFEST.json'), 'w'), indent=1)
print('wrote', len(checks), 'checks')
