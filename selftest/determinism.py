#!/venv/bin/python
"""Determinism self-test.  For every claimed property: N generated scenarios are executed
 (1) in this process, (2) again in this process in reversed order (order independence: no state
 leaks from one run into the next), (3) in a fresh interpreter under another PYTHONHASHSEED, and
 (4) for the thread-kernel harnesses, inside 8 concurrent processes (scheduling pressure).
Event-log digests must be identical.  exit 0 = deterministic; 1 = divergence (printed)."""
import hashlib, json, os, subprocess, sys
ROOT = os.path.dirname(os.path.dirname(os.path.abspath(__file__)))
sys.path.insert(0, ROOT); sys.path.insert(0, '/repo'); sys.dont_write_bytecode = True
from engine import runner

PROPS = ['C04', 'C05', 'C06', 'C07', 'C08', 'C09', 'C10', 'C11', 'C12', 'C13', 'C14', 'C15', 'C16', 'C17']


def digests(pid, n, order, tier='quick'):
    prop = runner.load_prop(pid)
    out = {}
    idx = list(range(n))
    if order == 'rev':
        idx.reverse()
    for i in idx:
        scn = prop.generate(runner.scenario_rng(12345, pid, tier, i), tier, i)
        o = prop.execute(scn)
        out[i] = (runner.scenario_digest(scn), o['digest'], json.dumps(sorted(json.dumps(v['sig'], sort_keys=True) for v in o['violations'])))
    return out


def main():
    if len(sys.argv) > 1 and sys.argv[1] == '--child':
        pid, n, tier = sys.argv[2], int(sys.argv[3]), sys.argv[4]
        d = digests(pid, n, 'fwd', tier)
        print(json.dumps({str(k): v for k, v in d.items()}))
        return 0
    n = int(sys.argv[1]) if len(sys.argv) > 1 else 150
    props = sys.argv[2].split(',') if len(sys.argv) > 2 else PROPS
    bad = 0
    for pid in props:
        tier = 'thorough' if pid == 'C15' else 'quick'      # thorough C15 includes line-level pre-emption
        a = digests(pid, n, 'fwd', tier)
        b = digests(pid, n, 'rev', tier)
        env = dict(os.environ, PYTHONHASHSEED='987654321')
        procs = [subprocess.Popen([sys.executable, os.path.abspath(__file__), '--child', pid, str(n), tier],
                                  stdout=subprocess.PIPE, stderr=subprocess.DEVNULL, env=dict(env, PYTHONHASHSEED=str(1000 + j)))
                 for j in range(8)]
        outs = [p.communicate()[0] for p in procs]
        diverged = []
        for i in range(n):
            if a[i] != b[i]:
                diverged.append((i, 'in-process order'))
        for j, o in enumerate(outs):
            try:
                c = json.loads(o.decode().strip().splitlines()[-1])
            except Exception:
                diverged.append((-1, 'child %d produced no output' % j))
                continue
            for i in range(n):
                if list(a[i]) != list(c[str(i)]):
                    diverged.append((i, 'fresh interpreter %d (PYTHONHASHSEED=%d)' % (j, 1000 + j)))
        print('%s: %d scenarios x (2 in-process orders + 8 concurrent fresh interpreters): %s'
              % (pid, n, 'identical digests' if not diverged else 'DIVERGED %s' % diverged[:5]))
        sys.stdout.flush()
        bad += len(diverged)
    return 1 if bad else 0


if __name__ == '__main__':
    sys.exit(main())
