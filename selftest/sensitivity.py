#!/venv/bin/python
"""Sensitivity self-test: every mutant in mutants/ (a realistic source change that breaks one property) is applied to
/repo, the named property's quick check is run with a reduced budget, the change is undone straight afterwards.
A mutant must be reported (exit 1 + VIOLATION line).  With --tests each mutant is first applied to a scratch
worktree outside /repo and /verif and the repository's own test suite must still pass (354 passed)."""
import json, os, subprocess, sys, time
ROOT = os.path.dirname(os.path.dirname(os.path.abspath(__file__)))
MUT = os.path.join(ROOT, 'mutants')
SEEDED = os.path.join(ROOT, 'seeded')


def sh(cmd, **kw):
    return subprocess.run(cmd, shell=True, capture_output=True, text=True, **kw)


def suite_passes(diff):
    wt = '/tmp/sens-wt'
    sh('git -C /repo worktree remove --force %s' % wt)
    r = sh('git -C /repo worktree add -q %s HEAD' % wt)
    try:
        a = sh('git -C %s apply %s' % (wt, diff))
        if a.returncode:
            return False, 'patch does not apply: ' + a.stderr[:200]
        t = sh('cd %s && /venv/bin/python -m pytest -q -p no:cacheprovider --timeout=120 --continue-on-collection-errors 2>&1 | tail -1' % wt,
               env=dict(os.environ, PYTHONDONTWRITEBYTECODE='1'))
        line = t.stdout.strip()
        return ('354 passed' in line), line
    finally:
        sh('git -C /repo worktree remove --force %s' % wt)


def main():
    args = [a for a in sys.argv[1:] if not a.startswith('--')]
    with_tests = '--tests' in sys.argv
    budget = os.environ.get('SENS_BUDGET_S', '25')
    items = []
    idx = json.load(open(os.path.join(MUT, 'index.json')))
    for name, meta in sorted(idx.items()):
        items.append((name, meta['property'], os.path.join(MUT, name + '.diff')))
    if os.path.isdir(SEEDED):
        for d in sorted(os.listdir(SEEDED)):
            mp = os.path.join(SEEDED, d, 'meta.json')
            if os.path.exists(mp):
                meta = json.load(open(mp))
                items.append(('seeded/' + d, meta['property'], os.path.join(SEEDED, d, 'patch.diff')))
    if args:
        items = [it for it in items if any(a in it[0] or a == it[1] for a in args)]
    if sh('git -C /repo status --porcelain --untracked-files=no').stdout.strip():
        print('refusing: /repo has uncommitted changes')
        return 2
    missed = 0
    for name, pid, diff in items:
        note = ''
        if with_tests:
            ok, line = suite_passes(diff)
            note = ' suite: %s' % line
            if not ok:
                print('%-45s %s  NOT A VALID MUTANT (test suite)%s' % (name, pid, note))
                missed += 1         # a change the suite notices (or that no longer applies) proves nothing: replace it
                continue
        t0 = time.time()
        a = sh('git -C /repo apply %s' % diff)
        if a.returncode:
            print('%-45s %s  STALE: patch does not apply: %s' % (name, pid, a.stderr[:120]))
            missed += 1         # a change that cannot be applied any more tells nothing: re-create it
            continue
        try:
            r = sh('cd %s && /venv/bin/python check.py %s --tier quick' % (ROOT, pid),
                   env=dict(os.environ, VERIF_BUDGET_S=budget, VERIF_SEED=os.environ.get('VERIF_SEED', '0')))
        finally:
            sh('git -C /repo checkout -- .')
        viol = [l for l in r.stdout.splitlines() if l.startswith('VIOLATION')]
        caught = r.returncode == 1 and bool(viol)
        first = ''
        if viol:
            lines = r.stdout.splitlines()
            i = lines.index(viol[0])
            first = ' | '.join(x.strip()[:150] for x in lines[i + 1:i + 3])
        print('%-45s %s  %s  (exit %d, %d violation lines, %.0fs)%s %s'
              % (name, pid, 'CAUGHT' if caught else 'MISSED', r.returncode, len(viol), time.time() - t0, note, first))
        sys.stdout.flush()
        if not caught:
            missed += 1
    # restore the evidence files written by the reduced-budget runs
    print('missed: %d of %d' % (missed, len(items)))
    return 1 if missed else 0


if __name__ == '__main__':
    sys.exit(main())
