"""Reference Modbus codec, written from "MODBUS Application Protocol v1.1b3"
and "MODBUS over Serial Line v1.02".  Shares no code with pymodbus.

Framings: 'tcp' (MBAP), 'rtu', 'ascii', 'binary' (jamod style as documented in
pymodbus/framer/binary_framer.py: '{' unit fc data crc '}', '{' and '}' inside
data doubled, CRC over the bytes as transmitted between '{' and the CRC),
'tls' (bare PDU).
"""
import struct


class Malformed(Exception):
    pass


# ----------------------------------------------------------------- checksums
def crc16(data):
    """CRC-16/MODBUS, bit by bit (poly 0xA001 reflected, init 0xFFFF)."""
    crc = 0xFFFF
    for b in data:
        crc ^= b
        for _ in range(8):
            if crc & 1:
                crc = (crc >> 1) ^ 0xA001
            else:
                crc >>= 1
    return crc & 0xFFFF


def crc_bytes(data):
    c = crc16(data)
    return bytes((c & 0xFF, c >> 8))        # low byte first on the wire


def lrc(data):
    return (-sum(data)) & 0xFF


# ------------------------------------------------------------------- framing
def frame(framing, unit, pdu, tid=0, pid=0):
    pdu = bytes(pdu)
    if framing == 'tcp':
        return struct.pack('>HHHB', tid & 0xFFFF, pid & 0xFFFF, len(pdu) + 1, unit & 0xFF) + pdu
    if framing == 'rtu':
        body = bytes((unit & 0xFF,)) + pdu
        return body + crc_bytes(body)
    if framing == 'ascii':
        body = bytes((unit & 0xFF,)) + pdu
        return b':' + body.hex().upper().encode() + ('%02X' % lrc(body)).encode() + b'\r\n'
    if framing == 'binary':
        esc = bytearray()
        for b in pdu[1:]:
            if b in (0x7B, 0x7D):
                esc.append(b)
            esc.append(b)
        body = bytes((unit & 0xFF, pdu[0])) + bytes(esc)
        return b'{' + body + crc_bytes(body) + b'}'
    if framing == 'tls':
        return pdu
    raise ValueError(framing)


MAX_FRAME = {'tcp': 260, 'rtu': 256, 'ascii': 513, 'binary': 2 * 256 + 2, 'tls': 253}


def parse_frame(framing, data):
    """Strict parse of exactly one whole frame -> (unit, tid, pid, pdu)."""
    data = bytes(data)
    if framing == 'tcp':
        if len(data) < 8:
            raise Malformed('short mbap')
        tid, pid, length, unit = struct.unpack('>HHHB', data[:7])
        if length != len(data) - 6:
            raise Malformed('mbap length %d vs %d' % (length, len(data) - 6))
        return unit, tid, pid, data[7:]
    if framing == 'rtu':
        if len(data) < 4:
            raise Malformed('short rtu')
        if crc_bytes(data[:-2]) != data[-2:]:
            raise Malformed('crc')
        return data[0], None, None, data[1:-2]
    if framing == 'ascii':
        if len(data) < 9 or data[:1] != b':' or data[-2:] != b'\r\n':
            raise Malformed('ascii delimiters')
        hexpart = data[1:-2]
        if len(hexpart) % 2:
            raise Malformed('odd hex')
        for c in hexpart:
            if c not in b'0123456789ABCDEFabcdef':
                raise Malformed('non-hex')
        raw = bytes.fromhex(hexpart.decode())
        if lrc(raw[:-1]) != raw[-1]:
            raise Malformed('lrc')
        return raw[0], None, None, raw[1:-1]
    if framing == 'binary':
        if len(data) < 6 or data[:1] != b'{' or data[-1:] != b'}':
            raise Malformed('binary delimiters')
        inner = data[1:-1]
        if crc_bytes(inner[:-2]) != inner[-2:]:
            raise Malformed('crc')
        body = inner[:-2]
        out = bytearray()
        i = 2
        while i < len(body):
            b = body[i]
            if b in (0x7B, 0x7D):
                if i + 1 < len(body) and body[i + 1] == b:
                    i += 1
                else:
                    raise Malformed('unescaped delimiter')
            out.append(b)
            i += 1
        return body[0], None, None, bytes(body[1:2]) + bytes(out)
    if framing == 'tls':
        if not data:
            raise Malformed('empty')
        return None, None, None, data
    raise ValueError(framing)


# ------------------------------------------------------------ PDU structure
def request_len(pdu):
    """Length a request PDU must have given its own leading fields, or None if
    it cannot be determined yet (too short) / unknown function code (-1)."""
    if not pdu:
        return None
    fc = pdu[0]
    if fc in (1, 2, 3, 4, 5, 6):
        return 5
    if fc in (15, 16):
        return None if len(pdu) < 6 else 6 + pdu[5]
    if fc == 22:
        return 7
    if fc == 23:
        return None if len(pdu) < 10 else 10 + pdu[9]
    if fc in (7, 11, 12, 17):
        return 1
    if fc == 8:
        return 5
    if fc in (20, 21):
        return None if len(pdu) < 2 else 2 + pdu[1]
    if fc == 24:
        return 3
    if fc == 43:
        return 4
    return -1


def response_len(pdu):
    if not pdu:
        return None
    fc = pdu[0]
    if fc & 0x80:
        return 2
    if fc in (1, 2, 3, 4, 23, 12, 17, 20, 21):
        return None if len(pdu) < 2 else 2 + pdu[1]
    if fc == 8:
        # 08/21 "get statistics" (operation 3) answers with a byte count and 54 words; every other
        # diagnostic response carries one 16-bit data field
        if len(pdu) >= 5 and pdu[1:5] == b'\x00\x15\x00\x03':
            return 7 + 108
        return 5
    if fc in (5, 6, 15, 16, 11):
        return 5
    if fc == 22:
        return 7
    if fc == 7:
        return 2
    if fc == 24:
        return None if len(pdu) < 3 else 3 + ((pdu[1] << 8) | pdu[2])
    if fc == 43:
        # 43/14: fc mei readcode conformity more next count {id len value}*
        if len(pdu) < 7:
            return None
        pos = 7
        for _ in range(pdu[6]):
            if len(pdu) < pos + 2:
                return None
            pos += 2 + pdu[pos + 1]
        return pos
    return -1


# ------------------------------------------------------------- PDU builders
def pack_bits(bits):
    out = bytearray((len(bits) + 7) // 8)
    for i, b in enumerate(bits):
        if b:
            out[i >> 3] |= 1 << (i & 7)
    return bytes(out)


def unpack_bits(data, count):
    return [bool(data[i >> 3] >> (i & 7) & 1) for i in range(count)]


def req_read(fc, addr, qty):
    return struct.pack('>BHH', fc, addr, qty)


def req_write_coil(addr, word):
    return struct.pack('>BHH', 5, addr, word)


def req_write_reg(addr, value):
    return struct.pack('>BHH', 6, addr, value)


def req_write_coils(addr, bits, qty=None, byte_count=None, data=None):
    qty = len(bits) if qty is None else qty
    data = pack_bits(bits) if data is None else data
    byte_count = len(data) if byte_count is None else byte_count
    return struct.pack('>BHHB', 15, addr, qty, byte_count & 0xFF) + data


def req_write_regs(addr, regs, qty=None, byte_count=None, data=None):
    qty = len(regs) if qty is None else qty
    data = b''.join(struct.pack('>H', r) for r in regs) if data is None else data
    byte_count = len(data) if byte_count is None else byte_count
    return struct.pack('>BHHB', 16, addr, qty, byte_count & 0xFF) + data


def req_mask_write(addr, and_mask, or_mask):
    return struct.pack('>BHHH', 22, addr, and_mask, or_mask)


def req_read_write(raddr, rqty, waddr, regs, wqty=None, byte_count=None, data=None):
    wqty = len(regs) if wqty is None else wqty
    data = b''.join(struct.pack('>H', r) for r in regs) if data is None else data
    byte_count = len(data) if byte_count is None else byte_count
    return struct.pack('>BHHHHB', 23, raddr, rqty, waddr, wqty, byte_count & 0xFF) + data


def rsp_bits(fc, bits):
    d = pack_bits(bits)
    return bytes((fc, len(d))) + d


def rsp_regs(fc, regs):
    return bytes((fc, (2 * len(regs)) & 0xFF)) + b''.join(struct.pack('>H', r) for r in regs)


def rsp_exception(fc, code):
    return bytes((fc | 0x80, code))


def parse_request(pdu):
    """-> dict(fc=..., ...) for FC 1-6, 15, 16, 22, 23; raises Malformed when the
    PDU is not shaped as its own length fields say; {'fc': n, 'opaque': True}
    for everything else."""
    pdu = bytes(pdu)
    if not pdu:
        raise Malformed('empty pdu')
    fc = pdu[0]
    want = request_len(pdu)
    if want == -1 or fc in (7, 8, 11, 12, 17, 20, 21, 24, 43):
        return {'fc': fc, 'opaque': True, 'raw': pdu}
    if want is None or want != len(pdu):
        raise Malformed('fc %d length %d want %s' % (fc, len(pdu), want))
    if fc in (1, 2, 3, 4):
        a, q = struct.unpack('>HH', pdu[1:])
        return {'fc': fc, 'addr': a, 'qty': q}
    if fc == 5:
        a, v = struct.unpack('>HH', pdu[1:])
        return {'fc': fc, 'addr': a, 'word': v}
    if fc == 6:
        a, v = struct.unpack('>HH', pdu[1:])
        return {'fc': fc, 'addr': a, 'value': v}
    if fc == 15:
        a, q, bc = struct.unpack('>HHB', pdu[1:6])
        return {'fc': fc, 'addr': a, 'qty': q, 'byte_count': bc, 'data': pdu[6:]}
    if fc == 16:
        a, q, bc = struct.unpack('>HHB', pdu[1:6])
        return {'fc': fc, 'addr': a, 'qty': q, 'byte_count': bc, 'data': pdu[6:]}
    if fc == 22:
        a, am, om = struct.unpack('>HHH', pdu[1:])
        return {'fc': fc, 'addr': a, 'and': am, 'or': om}
    if fc == 23:
        ra, rq, wa, wq, bc = struct.unpack('>HHHHB', pdu[1:10])
        return {'fc': fc, 'raddr': ra, 'rqty': rq, 'waddr': wa, 'wqty': wq,
                'byte_count': bc, 'data': pdu[10:]}
    raise Malformed('unreachable')


def parse_response(pdu):
    pdu = bytes(pdu)
    if not pdu:
        raise Malformed('empty pdu')
    fc = pdu[0]
    if fc & 0x80:
        if len(pdu) != 2:
            raise Malformed('exception length')
        return {'fc': fc, 'exception': pdu[1]}
    want = response_len(pdu)
    if want == -1 or fc in (7, 8, 11, 12, 17, 20, 21, 24, 43):
        return {'fc': fc, 'opaque': True, 'raw': pdu}
    if want is None or want != len(pdu):
        raise Malformed('fc %d length %d want %s' % (fc, len(pdu), want))
    if fc in (1, 2):
        return {'fc': fc, 'byte_count': pdu[1], 'data': pdu[2:]}
    if fc in (3, 4, 23):
        if pdu[1] % 2:
            raise Malformed('odd byte count')
        return {'fc': fc, 'regs': [(pdu[i] << 8) | pdu[i + 1] for i in range(2, len(pdu), 2)]}
    if fc in (5, 6):
        a, v = struct.unpack('>HH', pdu[1:])
        return {'fc': fc, 'addr': a, 'value': v}
    if fc in (15, 16):
        a, q = struct.unpack('>HH', pdu[1:])
        return {'fc': fc, 'addr': a, 'qty': q}
    if fc == 22:
        a, am, om = struct.unpack('>HHH', pdu[1:])
        return {'fc': fc, 'addr': a, 'and': am, 'or': om}
    raise Malformed('unreachable')


# ------------------------------------------------------- stream segmentation
def split_stream(framing, data, direction):
    """Split a byte string that is a concatenation of whole valid frames into
    frames (strict; raises Malformed otherwise).  direction: 'req' | 'rsp'."""
    data = bytes(data)
    out = []
    pos = 0
    n = len(data)
    lenfn = request_len if direction == 'req' else response_len
    while pos < n:
        if framing == 'tcp':
            if n - pos < 7:
                raise Malformed('trailing %d bytes' % (n - pos))
            length = (data[pos + 4] << 8) | data[pos + 5]
            end = pos + 6 + length
            if length < 2 or end > n:
                raise Malformed('mbap length')
        elif framing == 'rtu':
            pdu = data[pos + 1:]
            want = lenfn(pdu)
            if want is None or want < 0:
                raise Malformed('cannot size rtu frame at %d' % pos)
            end = pos + 1 + want + 2
            if end > n:
                raise Malformed('truncated rtu frame')
        elif framing == 'ascii':
            if data[pos:pos + 1] != b':':
                raise Malformed('no colon at %d' % pos)
            e = data.find(b'\r\n', pos)
            if e < 0:
                raise Malformed('no crlf')
            end = e + 2
        elif framing == 'binary':
            if data[pos:pos + 1] != b'{':
                raise Malformed('no brace at %d' % pos)
            # find the closing brace: a '}' not part of a doubled pair; the CRC
            # bytes are not escaped, so try candidates until one parses
            end = None
            e = pos + 1
            while True:
                e = data.find(b'}', e)
                if e < 0:
                    break
                try:
                    parse_frame('binary', data[pos:e + 1])
                    end = e + 1
                    break
                except Malformed:
                    e += 1
            if end is None:
                raise Malformed('no valid binary frame at %d' % pos)
        else:
            raise ValueError(framing)
        fr = data[pos:end]
        parse_frame(framing, fr)
        out.append(fr)
        pos = end
    return out
