"""Reference receiver: which messages do the bytes actually given *justify*?

justified(framing, data, direction) returns every substring of `data` that is
a complete frame with a valid integrity check under the reference codec:
[(start, end, unit, tid, pdu)].  This is deliberately the weakest sound reading
of "the bytes contain a frame for that message": a chance collision that really
produces a valid frame is never flagged by an oracle built on it.
"""
from . import codec

_TABLE = []
for _i in range(256):
    _c = _i
    for _ in range(8):
        _c = (_c >> 1) ^ 0xA001 if _c & 1 else _c >> 1
    _TABLE.append(_c)
# table derived from the bitwise definition in codec.crc16 (checked at import)
assert all(codec.crc16(bytes([i])) == (_TABLE[0xFF ^ i] ^ 0x00FF) for i in range(256))


def _pdu_len_ok(pdu, direction, strict=True):
    # only TCP demands that the frame extent (MBAP length) agrees with the length the
    # PDU's own fields imply; on the serial framings the integrity check is the checksum
    if not strict:
        return True
    fn = codec.request_len if direction == 'req' else codec.response_len
    want = fn(pdu)
    if want is None:
        return False
    if want == -1:
        return True             # unknown function code: extent is whatever the framing says
    return want == len(pdu)


def justified(framing, data, direction='req', max_frame=None):
    data = bytes(data)
    n = len(data)
    out = []
    if framing == 'tcp':
        for s in range(0, n - 7):
            length = (data[s + 4] << 8) | data[s + 5]
            e = s + 6 + length
            if length < 2 or e > n:
                continue
            pdu = data[s + 7:e]
            if _pdu_len_ok(pdu, direction):
                out.append((s, e, data[s + 6], (data[s] << 8) | data[s + 1], pdu))
        return out
    if framing == 'rtu':
        mx = max_frame or codec.MAX_FRAME['rtu']
        for s in range(0, n - 3):
            crc = 0xFFFF
            lim = min(n, s + mx)
            for e in range(s, lim):
                # crc covers data[s:e]; candidate frame is data[s:e+2]
                if e - s >= 2 and e + 2 <= n:
                    if data[e] == (crc & 0xFF) and data[e + 1] == (crc >> 8):
                        pdu = data[s + 1:e]
                        if _pdu_len_ok(pdu, direction, strict=False):
                            out.append((s, e + 2, data[s], None, pdu))
                crc = (crc >> 8) ^ _TABLE[(crc ^ data[e]) & 0xFF]
        return out
    if framing == 'ascii':
        starts = [i for i in range(n) if data[i] == 0x3A]
        ends = [i for i in range(n - 1) if data[i] == 0x0D and data[i + 1] == 0x0A]
        for s in starts:
            for e in ends:
                if e <= s:
                    continue
                if e - s > codec.MAX_FRAME['ascii'] + 2:
                    break
                try:
                    unit, _, _, pdu = codec.parse_frame('ascii', data[s:e + 2])
                except codec.Malformed:
                    continue
                if pdu and _pdu_len_ok(pdu, direction, strict=False):
                    out.append((s, e + 2, unit, None, pdu))
        return out
    if framing == 'binary':
        starts = [i for i in range(n) if data[i] == 0x7B]
        ends = [i for i in range(n) if data[i] == 0x7D]
        for s in starts:
            for e in ends:
                if e <= s:
                    continue
                if e - s > codec.MAX_FRAME['binary'] + 2:
                    break
                try:
                    unit, _, _, pdu = codec.parse_frame('binary', data[s:e + 1])
                except codec.Malformed:
                    continue
                if pdu and _pdu_len_ok(pdu, direction, strict=False):
                    out.append((s, e + 1, unit, None, pdu))
        return out
    if framing == 'tls':
        return [(0, n, None, None, data)] if data else []
    raise ValueError(framing)


def justified_pdus(framing, data, direction='req'):
    return set((u, t, p) for (_, _, u, t, p) in justified(framing, data, direction))
