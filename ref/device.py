"""Reference Modbus data model (register file) and request semantics, as stated
in properties C04/C05/C10 and the application protocol specification.

A *layout* (plain JSON, from the scenario) describes one unit:
  {"zero_mode": bool,
   "tables": {"c": BLOCK, "d": BLOCK, "h": BLOCK, "i": BLOCK},
   "share": {"d": "c", "i": "h"}   # optional aliases: table -> table whose block it shares
  }
  BLOCK = {"kind": "seq", "start": s, "size": n, "init": v | [v...]}
        | {"kind": "sparse", "cells": {"addr": v, ...}}
Block addresses are datastore addresses; the wire address of a cell is
block_address - (0 if zero_mode else 1).
"""
from . import codec

ILLEGAL_FUNCTION, ILLEGAL_ADDRESS, ILLEGAL_VALUE, SLAVE_FAILURE = 1, 2, 3, 4
GATEWAY_PATH, GATEWAY_NO_RESPONSE = 0x0A, 0x0B

TABLE_OF_FC = {1: 'c', 5: 'c', 15: 'c', 2: 'd', 3: 'h', 6: 'h', 16: 'h', 22: 'h', 23: 'h', 4: 'i'}
BIT_TABLES = ('c', 'd')


def block_cells(block):
    """datastore address -> initial value"""
    if block['kind'] == 'seq':
        init = block.get('init', 0)
        if isinstance(init, list):
            return {block['start'] + i: init[i % len(init)] for i in range(block['size'])}
        return {block['start'] + i: init for i in range(block['size'])}
    return {int(a): v for a, v in block['cells'].items()}


class Table(object):
    """One table of the data model: explicitly stored cells plus, for a table left at the
    datastore's constructor default ({"kind": "default"}: 65536 cells of 0 from datastore address 0),
    a fully populated range [lo, hi] of wire addresses whose untouched cells read as `fill`."""

    def __init__(self, cells, full=None):
        self.cells = cells
        self.full = full            # None | (lo, hi, fill)

    def __contains__(self, a):
        return a in self.cells or (self.full is not None and self.full[0] <= a <= self.full[1])

    def __getitem__(self, a):
        if a in self.cells:
            return self.cells[a]
        if self.full is not None and self.full[0] <= a <= self.full[1]:
            return self.full[2]
        raise KeyError(a)

    def __setitem__(self, a, v):
        self.cells[a] = v

    def keys(self):
        if self.full is not None:
            return range(self.full[0], self.full[1] + 1)
        return self.cells.keys()

    def dump(self):
        if self.full is None:
            return dict(self.cells)
        return {a: v for a, v in self.cells.items() if v != self.full[2]}


class RefUnit(object):
    def __init__(self, layout):
        self.zero_mode = bool(layout.get('zero_mode', False))
        share = layout.get('share') or {}
        self.alias = {}
        self.store = {}
        off = 0 if self.zero_mode else 1
        for t in ('c', 'd', 'h', 'i'):
            src = share.get(t, t)
            self.alias[t] = src
        for t in ('c', 'd', 'h', 'i'):
            if self.alias[t] == t:
                spec = layout['tables'][t]
                bit = t in BIT_TABLES
                if spec['kind'] == 'default':
                    self.store[t] = Table({}, (max(0, 0 - off), 0xFFFF - off, False if bit else 0))
                    continue
                cells = block_cells(spec)
                self.store[t] = Table({a - off: (bool(v) if bit else int(v)) for a, v in cells.items()
                                       if 0 <= a - off <= 0xFFFF})

    def table(self, t):
        return self.store[self.alias[t]]

    def in_range(self, t, addr, qty):
        tab = self.table(t)
        if addr + qty - 1 > 0xFFFF:
            return False
        return all((addr + i) in tab for i in range(qty))

    def dump(self):
        """wire-address view of all four tables (aliases expanded; default tables: non-default cells only)"""
        return {t: self.table(t).dump() for t in ('c', 'd', 'h', 'i')}

    def copy_state(self):
        return {t: dict(v.cells) for t, v in self.store.items()}

    def restore(self, st):
        for t, v in st.items():
            self.store[t].cells = dict(v)

    # -----------------------------------------------------------------
    def execute(self, pdu):
        """Return (set_of_acceptable_response_pdus, applied) and apply the effect.

        The set has more than one member only where the property leaves a
        choice (a request with both a 03-class and a 02-class fault)."""
        try:
            rq = codec.parse_request(pdu)
        except codec.Malformed:
            return None, False          # malformed: judged by C12, not by the model
        fc = rq['fc']
        if rq.get('opaque'):
            if codec.request_len(pdu) == -1:
                return {codec.rsp_exception(fc, ILLEGAL_FUNCTION)}, False
            return None, False          # supported non-data-access code: not modelled
        exc = lambda code: codec.rsp_exception(fc, code)
        t = TABLE_OF_FC[fc]
        if fc in (1, 2, 3, 4):
            lim = 2000 if fc in (1, 2) else 125
            bad_v = not (1 <= rq['qty'] <= lim)
            bad_a = not self.in_range(t, rq['addr'], max(rq['qty'], 1))
            if bad_v or bad_a:
                return self._errs(fc, bad_v, bad_a), False
            vals = [self.table(t)[rq['addr'] + i] for i in range(rq['qty'])]
            if fc in (1, 2):
                return {codec.rsp_bits(fc, vals)}, False
            return {codec.rsp_regs(fc, vals)}, False
        if fc == 5:
            bad_v = rq['word'] not in (0x0000, 0xFF00)
            bad_a = not self.in_range(t, rq['addr'], 1)
            if bad_v or bad_a:
                return self._errs(fc, bad_v, bad_a), False
            self.table(t)[rq['addr']] = (rq['word'] == 0xFF00)
            return {bytes(pdu)}, True
        if fc == 6:
            if not self.in_range(t, rq['addr'], 1):
                return {exc(ILLEGAL_ADDRESS)}, False
            self.table(t)[rq['addr']] = rq['value']
            return {bytes(pdu)}, True
        if fc == 15:
            q = rq['qty']
            bad_v = not (1 <= q <= 1968) or rq['byte_count'] != (q + 7) // 8
            bad_a = not self.in_range(t, rq['addr'], max(q, 1))
            if bad_v or bad_a:
                return self._errs(fc, bad_v, bad_a), False
            bits = codec.unpack_bits(rq['data'], q)
            for i, b in enumerate(bits):
                self.table(t)[rq['addr'] + i] = b
            return {bytes(pdu[:5])}, True
        if fc == 16:
            q = rq['qty']
            bad_v = not (1 <= q <= 123) or rq['byte_count'] != 2 * q
            bad_a = not self.in_range(t, rq['addr'], max(q, 1))
            if bad_v or bad_a:
                return self._errs(fc, bad_v, bad_a), False
            d = rq['data']
            for i in range(q):
                self.table(t)[rq['addr'] + i] = (d[2 * i] << 8) | d[2 * i + 1]
            return {bytes(pdu[:5])}, True
        if fc == 22:
            if not self.in_range(t, rq['addr'], 1):
                return {exc(ILLEGAL_ADDRESS)}, False
            cur = self.table(t)[rq['addr']]
            self.table(t)[rq['addr']] = ((cur & rq['and']) | (rq['or'] & ~rq['and'])) & 0xFFFF
            return {bytes(pdu)}, True
        if fc == 23:
            rqty, wqty = rq['rqty'], rq['wqty']
            bad_v = (not (1 <= rqty <= 125) or not (1 <= wqty <= 121)
                     or rq['byte_count'] != 2 * wqty)
            bad_a = (not self.in_range(t, rq['raddr'], max(rqty, 1))
                     or not self.in_range(t, rq['waddr'], max(wqty, 1)))
            if bad_v or bad_a:
                return self._errs(fc, bad_v, bad_a), False
            d = rq['data']
            for i in range(wqty):
                self.table(t)[rq['waddr'] + i] = (d[2 * i] << 8) | d[2 * i + 1]
            vals = [self.table(t)[rq['raddr'] + i] for i in range(rqty)]
            return {codec.rsp_regs(fc, vals)}, True
        return None, False

    @staticmethod
    def _errs(fc, bad_v, bad_a):
        out = set()
        if bad_v:
            out.add(codec.rsp_exception(fc, ILLEGAL_VALUE))
        if bad_a:
            out.add(codec.rsp_exception(fc, ILLEGAL_ADDRESS))
        return out

    def is_write(self, pdu):
        return bool(pdu) and pdu[0] in (5, 6, 15, 16, 22, 23)


def fault_class(pdu):
    """Which classes of fault a request has, independent of any layout:
    used by generators for statistics only."""
    try:
        rq = codec.parse_request(pdu)
    except codec.Malformed:
        return 'malformed'
    return 'ok' if not rq.get('opaque') else 'opaque'
