"""Virtual-time asyncio event loop driven by the simulation kernel.

SimLoop inherits call_soon / call_at / Future / Task / Queue from
asyncio.BaseEventLoop; only the clock and the turn function are ours.  It is a
kernel *actor*: the scheduler calls step() for one loop turn whenever the loop
has ready callbacks or a due timer, so loop turns interleave with network
deliveries and with thread tasks under the scheduler's choices."""
import asyncio
import heapq
from asyncio import events


class SimLoop(asyncio.BaseEventLoop):
    name = 'aio-loop'

    def __init__(self, kernel):
        super().__init__()
        self.k = kernel
        self.unhandled = []         # contexts passed to the exception handler
        self.set_exception_handler(self._on_exception)
        self._sim_servers = []
        self._sim_dgram = []

    # -- clock
    def time(self):
        return self.k.now

    # -- no selector, no self-pipe
    def _process_events(self, event_list):
        pass

    def _write_to_self(self):
        pass

    def _on_exception(self, loop, context):
        self.unhandled.append(context)

    # -- kernel actor interface
    def has_work(self):
        if self._ready:
            return True
        while self._scheduled and self._scheduled[0]._cancelled:
            h = heapq.heappop(self._scheduled)
            h._scheduled = False
        return bool(self._scheduled) and self._scheduled[0]._when <= self.k.now

    def next_deadline(self):
        while self._scheduled and self._scheduled[0]._cancelled:
            h = heapq.heappop(self._scheduled)
            h._scheduled = False
        if self._scheduled:
            return self._scheduled[0]._when
        return None

    def step(self):
        """One loop turn: due timers -> ready; run what was ready at the start."""
        old = events._get_running_loop()
        events._set_running_loop(self)
        try:
            now = self.k.now
            while self._scheduled and self._scheduled[0]._when <= now:
                h = heapq.heappop(self._scheduled)
                h._scheduled = False
                if not h._cancelled:
                    self._ready.append(h)
            for _ in range(len(self._ready)):
                h = self._ready.popleft()
                if h._cancelled:
                    continue
                h._run()
        finally:
            events._set_running_loop(old)

    def run_in_loop(self, fn, *args):
        """Call fn synchronously with this loop marked as the running loop
        (what the selector callback context is in production)."""
        old = events._get_running_loop()
        events._set_running_loop(self)
        try:
            return fn(*args)
        finally:
            events._set_running_loop(old)

    # -- listeners
    async def create_server(self, protocol_factory, host=None, port=None, **kw):
        srv = SimAioServer(self, protocol_factory, (host, port))
        self._sim_servers.append(srv)
        return srv

    async def create_datagram_endpoint(self, protocol_factory, local_addr=None, **kw):
        proto = protocol_factory()
        tr = SimAioDatagramTransport(self, proto, local_addr)
        self._sim_dgram.append((tr, proto))
        proto.connection_made(tr)
        return tr, proto

    def sim_close(self):
        if not self.is_closed():
            self._ready.clear()
            self._scheduled.clear()
            self._closed = True


class SimAioServer(object):
    def __init__(self, loop, factory, addr):
        self.loop = loop
        self.factory = factory
        self.addr = addr
        self.closed = False
        self._forever = None

    async def serve_forever(self):
        self._forever = self.loop.create_future()
        await self._forever

    def close(self):
        self.closed = True

    def is_serving(self):
        return not self.closed


class SimAioTransport(object):
    """Stream transport handed to a protocol; writes are recorded."""

    def __init__(self, loop, peername, sockname=('sim-srv', 502)):
        self.loop = loop
        self.k = loop.k
        self.peername = peername
        self.sockname = sockname
        self.out = []               # (seq, bytes)
        self.closed = False
        self.protocol = None

    def get_extra_info(self, name, default=None):
        if name == 'peername':
            return self.peername
        if name == 'sockname':
            return self.sockname
        return default

    def write(self, data):
        if self.closed:
            return
        data = bytes(data)
        seq = self.k.log('aio-write', self.peername[1], data)
        self.out.append((seq, data))

    def close(self):
        if not self.closed:
            self.closed = True
            self.k.log('aio-close', self.peername[1])
            if self.protocol is not None and not self.loop.is_closed():
                self.loop.call_soon(self.protocol.connection_lost, None)

    def abort(self):
        self.close()

    def is_closing(self):
        return self.closed


class SimAioDatagramTransport(object):
    def __init__(self, loop, protocol, local_addr):
        self.loop = loop
        self.k = loop.k
        self.protocol = protocol
        self.local_addr = local_addr
        self.out = []               # (seq, bytes, addr)
        self.closed = False

    def get_extra_info(self, name, default=None):
        if name == 'sockname':
            return self.local_addr or ('sim-srv', 502)
        return default

    def sendto(self, data, addr=None):
        if self.closed:
            return
        data = bytes(data)
        seq = self.k.log('aio-sendto', data, addr)
        self.out.append((seq, data, addr))

    def close(self):
        if not self.closed:
            self.closed = True
            if not self.loop.is_closed():
                self.loop.call_soon(self.protocol.connection_lost, None)

    def abort(self):
        self.close()

    def is_closing(self):
        return self.closed
