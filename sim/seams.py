"""Installs the simulator at pymodbus' own seams (module attributes only; no
edit in /repo): time, socket, select, serial.Serial, RLock, socketserver's
socket/threading.  `CURRENT` is the kernel of the run in progress."""
import logging
import select as _real_select
import socket as _real_socket
import sys
import threading as _real_threading
import time as _real_time
import types

from . import net
from .kernel import HarnessError

CURRENT = None          # the Kernel of the active run
_installed = False
_saved = {}
_ORIG = {}


def kernel():
    return CURRENT


def set_kernel(k):
    global CURRENT
    CURRENT = k


class _TimeShim(object):
    """Stands in for the `time` module inside pymodbus modules."""

    def time(self):
        return CURRENT.time()

    def sleep(self, dt):
        if dt < 0:
            # the real time.sleep() refuses this too; a stub that quietly accepts it hides the caller's mistake
            raise ValueError('sleep length must be non-negative')
        k = CURRENT
        k.count('sleep')
        if k.current is None:
            k.now += max(0.0, dt)
            return
        k.yield_point('sleep')
        k.sleep(dt)

    def monotonic(self):
        return CURRENT.time()

    def __getattr__(self, name):
        return getattr(_real_time, name)


class _SocketShim(object):
    """Stands in for the `socket` module.  Constants and exception classes are
    the real ones; everything that would touch the OS is simulated."""

    def __init__(self):
        self.error = _real_socket.error
        self.timeout = _real_socket.timeout

    def __getattr__(self, name):
        return getattr(_real_socket, name)

    def create_connection(self, address, timeout=None, source_address=None):
        k = CURRENT
        k.yield_point('connect')
        fn = k.registry.get('tcp_connect')
        if fn is None:
            raise ConnectionRefusedError(111, 'Connection refused')
        sock = fn(tuple(address))
        if isinstance(sock, BaseException):
            raise sock
        sock.settimeout(timeout)
        k.log('connect', address[1])
        return sock

    def socket(self, family=None, type=None, proto=0):
        k = CURRENT
        fn = k.registry.get('socket_factory')
        if fn is None:
            raise HarnessError('socket() with no factory registered')
        k.yield_point('socket')         # a system call: the GIL is released around it
        return fn(family, type)


class _SelectShim(object):
    error = _real_select.error

    def select(self, r, w, x, timeout=None):
        return net.sim_select(CURRENT, r, w, x, timeout)


class SimThread(object):
    """threading.Thread stand-in used by socketserver.ThreadingMixIn."""

    def __init__(self, target=None, args=(), kwargs=None, name=None, daemon=None):
        self._target = target
        self._args = args
        self._kwargs = kwargs or {}
        self.daemon = daemon
        self.name = name
        self.task = None

    def start(self):
        k = CURRENT
        n = k.registry.get('thread_counter', 0)
        k.registry['thread_counter'] = n + 1
        self.task = k.spawn('srv-thread-%d' % n,
                            lambda: self._target(*self._args, **self._kwargs), daemon=True)

    def join(self, timeout=None):
        pass

    def is_alive(self):
        return self.task is not None and self.task.state != 'done'


class _ThreadingShim(object):
    Thread = SimThread

    def __getattr__(self, name):
        return getattr(_real_threading, name)


def _sim_serial_factory(port=None, timeout=None, **kw):
    k = CURRENT
    fn = k.registry.get('serial_open')
    if fn is None:
        import serial
        raise serial.SerialException('no such port %r' % (port,))
    k.yield_point('open')               # opening a port is a system call: the GIL is released around it
    obj = fn(port, timeout)
    if isinstance(obj, BaseException):
        raise obj
    return obj


def _rlock_factory():
    return net.SimRLock(kernel)


_TRIPWIRE_EVENTS = frozenset(['socket.__new__', 'socket.connect', 'socket.bind', 'socket.sendto', 'socket.sendmsg', 'socket.getaddrinfo',
                              'time.sleep', 'subprocess.Popen', 'os.fork', 'os.posix_spawn', '_thread.start_new_thread'])


def _tripwire(event, args):
    # code under test that slips past a seam to a real socket, a real sleep, a subprocess or an
    # unmanaged thread while it runs as a simulated task cannot go unnoticed: harness error
    if event in _TRIPWIRE_EVENTS:
        k = CURRENT
        if k is not None and k.current is not None and not k.shutting_down and not k.spawning:
            k.counters['tripwire:' + event] = k.counters.get('tripwire:' + event, 0) + 1
            raise HarnessError('simulated task %s reached the operating system: %s' % (k.current.name, event))


def install():
    """Idempotent; done once per process before any pymodbus object is built."""
    global _installed
    if _installed:
        return
    sys.addaudithook(_tripwire)
    if '/repo' not in sys.path:
        sys.path.insert(0, '/repo')
    import serial
    import socketserver
    import pymodbus
    if not pymodbus.__file__.startswith('/repo/'):
        raise HarnessError('pymodbus imported from %s, not /repo' % pymodbus.__file__)
    lg = logging.getLogger('pymodbus')
    lg.addHandler(logging.NullHandler())
    lg.propagate = False
    lg.setLevel(logging.CRITICAL + 1)
    import pymodbus.client.sync as cs
    import pymodbus.transaction as tr
    import pymodbus.framer.rtu_framer as rf
    import pymodbus.server.sync as ss
    tshim = _TimeShim()
    sshim = _SocketShim()
    cs.time = tshim
    tr.time = tshim
    rf.time = tshim
    cs.socket = sshim
    cs.select = _SelectShim()
    tr.RLock = _rlock_factory
    serial.Serial = _sim_serial_factory
    socketserver.socket = sshim
    socketserver.threading = _ThreadingShim()
    # socketserver's selector use is never reached: the harness calls
    # process_request() itself instead of serve_forever().
    from pymodbus.interfaces import IModbusSlaveContext
    _ORIG['fx_mapper'] = dict(IModbusSlaveContext._IModbusSlaveContext__fx_mapper)
    _installed = True


LINE_FILES = None


def line_files():
    global LINE_FILES
    if LINE_FILES is None:
        import pymodbus.client.sync as cs
        import pymodbus.transaction as tr
        import pymodbus.framer.rtu_framer as f1
        import pymodbus.framer.socket_framer as f2
        import pymodbus.framer.ascii_framer as f3
        import pymodbus.framer.binary_framer as f4
        import pymodbus.framer as f0
        LINE_FILES = frozenset(m.__file__ for m in (cs, tr, f0, f1, f2, f3, f4))
    return LINE_FILES


def reset_globals():
    """Restore pymodbus' process-global mutable state before every run."""
    from pymodbus.device import ModbusControlBlock, ModbusDeviceIdentification
    from pymodbus.device import ModbusCountersHandler, ModbusPlusStatistics
    from pymodbus.interfaces import IModbusSlaveContext
    mcb = ModbusControlBlock()
    mcb._ModbusControlBlock__mode = 'ASCII'
    mcb._ModbusControlBlock__diagnostic = [False] * 16
    mcb._ModbusControlBlock__listen_only = False
    mcb._ModbusControlBlock__delimiter = '\r'
    mcb._ModbusControlBlock__events = []
    ModbusControlBlock._ModbusControlBlock__events = []
    ModbusControlBlock._ModbusControlBlock__diagnostic = [False] * 16
    ModbusControlBlock._ModbusControlBlock__listen_only = False
    mcb.Counter.reset()
    mcb.Plus.reset()
    ident = mcb.Identity
    data = ident._ModbusDeviceIdentification__data
    for key in list(data.keys()):
        if key > 0x08:
            del data[key]
        else:
            data[key] = ''
    # restore the mapping the tree under test ships (captured at install time), not a constant:
    # a change to that table must stay visible to the checks
    IModbusSlaveContext._IModbusSlaveContext__fx_mapper = dict(_ORIG['fx_mapper'])
    try:
        from pymodbus.client.asynchronous.twisted import ModbusTcpClientProtocol
        fr = ModbusTcpClientProtocol.framer
        fr.resetFrame()
    except Exception:
        pass
