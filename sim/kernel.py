"""Deterministic simulation kernel.

One scheduler (the thread that calls Kernel.run) owns a baton.  Simulated
tasks are real OS threads, but exactly one of {scheduler, one task} runs at any
moment: a task runs only between the scheduler handing it the baton and the
task giving it back at a *yield point* (a blocking call on a simulator object,
an explicit pre-emption point, or -- in line mode -- a selected line event).

Time is virtual.  Timed events live in a heap ordered by (time, seq).  When
nothing is runnable the clock jumps to the next event / deadline.  Every clock
read by code under test advances `now` by `cpu_step` (pymodbus has busy-wait
loops that only end because time passes).

Every scheduling decision with more than one enabled alternative is taken from
`choices` (explicit list, from the scenario); when the list is exhausted the
decision comes from Random(tail_seed).  Executed decisions are recorded so a
run can be re-serialised with a complete explicit list.

Nothing in here reads a real clock except the wall-clock watchdog, whose only
effect is to abort the run with HarnessError (never a pass, never a violation).
"""
import faulthandler
import hashlib
import heapq
import random
import sys
import threading


class SimShutdown(BaseException):
    """Raised inside a task when the run is being torn down."""


class HarnessError(Exception):
    """The simulator itself failed (not a statement about the code under test)."""


NEW, RUNNABLE, PARKED, RUNNING, DONE = 'new', 'runnable', 'parked', 'running', 'done'


class Task(object):
    __slots__ = ('id', 'name', 'fn', 'thread', 'sem', 'state', 'pred', 'deadline',
                 'exc', 'result', 'daemon', 'timed_out', 'wait_label', 'kernel', 'yielded')

    def __init__(self, kernel, tid, name, fn, daemon):
        self.kernel = kernel
        self.id = tid
        self.name = name
        self.fn = fn
        self.sem = threading.Semaphore(0)
        self.state = NEW
        self.pred = None
        self.deadline = None
        self.exc = None
        self.result = None
        self.daemon = daemon
        self.timed_out = False
        self.wait_label = None
        self.yielded = False
        self.thread = None

    def __repr__(self):
        return 'Task(%d,%s,%s)' % (self.id, self.name, self.state)


class Kernel(object):
    def __init__(self, sched=None, cpu_step=1e-4, max_steps=20000, max_vtime=600.0,
                 wall_timeout=20.0, keep_log=False):
        sched = sched or {}
        self.choices = list(sched.get('choices') or [])
        self.choice_pos = 0
        self.rng = random.Random(sched.get('tail_seed', 0))
        self.executed = []          # every decision with k > 1, as taken
        self.preempt_lines = set(sched.get('preempt_lines') or [])
        self.line_files = None      # set by seams when line mode is on
        self.line_counter = 0
        self.cpu_step = float(cpu_step)
        self.spin_cap = max(2e-3, float(cpu_step))
        self.reads_since_progress = 0
        self.max_steps = max_steps
        self.max_vtime = max_vtime
        self.wall_timeout = wall_timeout
        self.now = 0.0
        self.seq = 0
        self.steps = 0
        self.heap = []
        self.tasks = []
        self.actors = []            # objects with has_work()/step()/next_deadline()/name
        self.current = None         # running Task or None (scheduler)
        self.sched_sem = threading.Semaphore(0)
        self.shutting_down = False
        self.stop_reason = None     # 'quiescent' | 'steps' | 'vtime' | 'stopped'
        self.stop_requested = False
        self._h = hashlib.blake2b(digest_size=16)
        self.keep_log = keep_log
        self.events = []
        self.shape = hashlib.blake2b(digest_size=8)   # (actor, kind) sequence only
        self.counters = {}
        self.io = []                # (seq, task, kind, endpoint, bytes): transport history
        self.registry = {}          # free-form: ports, listeners ... used by seams
        self._last_task = None
        self.spawning = False

    # ------------------------------------------------------------------ log
    def log(self, kind, *payload):
        self.seq += 1
        actor = self.current.name if self.current is not None else 'sched'
        rec = (self.seq, round(self.now, 9), actor, kind, payload)
        self._h.update(repr(rec).encode())
        self.shape.update(('%s/%s;' % (actor, kind)).encode())
        if self.keep_log:
            self.events.append(rec)
        return self.seq

    def count(self, key, n=1):
        self.counters[key] = self.counters.get(key, 0) + n

    def digest(self):
        return self._h.hexdigest()

    def shape_digest(self):
        return self.shape.hexdigest()

    # -------------------------------------------------------------- choices
    def choose(self, k, tag='sched'):
        if k <= 1:
            return 0
        if self.choice_pos < len(self.choices):
            c = self.choices[self.choice_pos] % k
        else:
            c = self.rng.randrange(k)
        self.choice_pos += 1
        self.executed.append(c)
        return c

    # ---------------------------------------------------------------- clock
    def time(self):
        """Clock read by code under test: advances virtual time by cpu_step."""
        self._check_shutdown()
        t = self.now
        # A clock read costs cpu_step.  A busy-wait (many reads in a row while no byte moves and
        # nobody else runs) is fast-forwarded: the step doubles every 8 further reads up to
        # spin_cap, so a spin ends at most spin_cap after its deadline instead of costing
        # timeout / cpu_step real iterations.  Any transport progress resets it.
        self.reads_since_progress += 1
        step = self.cpu_step
        if self.reads_since_progress > 64:
            step = min(self.spin_cap, self.cpu_step * (2 ** min(40, (self.reads_since_progress - 64) // 8)))
            self.counters['spin_fast_forward'] = self.counters.get('spin_fast_forward', 0) + 1
        self.now += step
        return t

    def progress(self):
        self.reads_since_progress = 0

    def call_at(self, when, fn, label=''):
        self.seq += 1
        heapq.heappush(self.heap, (when, self.seq, fn, label))

    def call_later(self, delay, fn, label=''):
        self.call_at(self.now + max(0.0, delay), fn, label)

    # ---------------------------------------------------------------- tasks
    def spawn(self, name, fn, daemon=False):
        t = Task(self, len(self.tasks), name, fn, daemon)
        self.tasks.append(t)
        th = threading.Thread(target=self._task_main, args=(t,), name='sim-' + name)
        th.daemon = True
        t.thread = th
        t.state = RUNNABLE
        self.spawning = True        # the one legitimate thread start: tell the tripwire
        try:
            th.start()
        finally:
            self.spawning = False
        self.log('spawn', name)
        return t

    def add_actor(self, actor):
        self.actors.append(actor)

    def _task_main(self, t):
        t.sem.acquire()             # wait for first baton
        tracer = None
        try:
            if self.shutting_down:
                raise SimShutdown()
            if self.line_files is not None:
                tracer = self._make_tracer()
                sys.settrace(tracer)
            t.result = t.fn()
        except SimShutdown:
            pass
        except BaseException as ex:     # recorded; the harness decides what it means
            t.exc = ex
        finally:
            if tracer is not None:
                sys.settrace(None)
            t.state = DONE
            self.current = None
            self.sched_sem.release()

    # line-level pre-emption: only the selected global line-event indices yield
    def _make_tracer(self):
        files = self.line_files
        kernel = self

        def local(frame, event, arg):
            if event == 'line':
                kernel.line_counter += 1
                if kernel.line_counter in kernel.preempt_lines and not kernel.shutting_down:
                    kernel.count('line_preempt')
                    kernel.yield_point('line', force_switch=True)
            return local

        def tracer(frame, event, arg):
            if event == 'call' and frame.f_code.co_filename in files:
                return local
            return None
        return tracer

    def _check_shutdown(self):
        if self.shutting_down and self.current is not None:
            raise SimShutdown()

    def _give_back(self, t):
        """Called from a task thread: hand the baton to the scheduler and wait."""
        self.current = None
        self.sched_sem.release()
        t.sem.acquire()
        self.current = t
        if self.shutting_down:
            raise SimShutdown()

    def yield_point(self, label='', force_switch=False):
        """Pre-emption point: stay runnable, let the scheduler choose."""
        t = self.current
        if t is None:
            return
        self._check_shutdown()
        if not force_switch and not self._others_enabled(t):
            return
        t.state = RUNNABLE
        t.wait_label = label
        if force_switch:
            t.yielded = True        # scheduler prefers another entity once
        self._give_back(t)

    def _others_enabled(self, me):
        for t in self.tasks:
            if t is me:
                continue
            if t.state == RUNNABLE:
                return True
            if t.state == PARKED and self._wakeable(t):
                return True
        if self.heap and self.heap[0][0] <= self.now:
            return True
        for a in self.actors:
            if a.has_work():
                return True
        return False

    def wait(self, pred, timeout=None, label=''):
        """Park the current task until pred() is true or `timeout` virtual seconds
        pass.  Returns True if pred() holds on wake-up, False on timeout."""
        t = self.current
        if t is None:
            raise HarnessError('wait() outside a task')
        self._check_shutdown()
        t.pred = pred
        t.deadline = None if timeout is None else self.now + max(0.0, timeout)
        t.state = PARKED
        t.wait_label = label
        t.timed_out = False
        self._give_back(t)
        ok = bool(pred())
        t.pred = None
        t.deadline = None
        return ok

    def sleep(self, dt):
        self.wait(lambda: False, timeout=max(0.0, dt), label='sleep')

    def _wakeable(self, t):
        if t.pred is not None:
            try:
                if t.pred():
                    return True
            except SimShutdown:
                return True
        return t.deadline is not None and t.deadline <= self.now

    # ------------------------------------------------------------ scheduler
    def _switch_to(self, t):
        t.state = RUNNING
        self.current = t
        t.sem.release()
        if not self.sched_sem.acquire(timeout=self.wall_timeout):
            try:
                faulthandler.dump_traceback(file=sys.stderr, all_threads=True)
            except Exception:
                pass
            raise HarnessError('task %s did not return to the scheduler within %ss wall'
                               % (t.name, self.wall_timeout))
        self.current = None

    def request_stop(self):
        self.stop_requested = True

    def run(self, until=None):
        """Run until quiescent / caps / `until()` true.  Returns stop reason."""
        self.stop_requested = False
        while True:
            if self.stop_requested:
                self.stop_reason = 'stopped'
                break
            if until is not None and until():
                self.stop_reason = 'until'
                break
            if self.steps >= self.max_steps:
                self.stop_reason = 'steps'
                break
            if self.now > self.max_vtime:
                self.stop_reason = 'vtime'
                break
            enabled = []
            forced = None
            for t in self.tasks:
                if t.state == RUNNABLE:
                    if t.yielded:
                        forced = t
                        continue
                    enabled.append(('t', t))
                elif t.state == PARKED and self._wakeable(t):
                    enabled.append(('t', t))
            if self.heap and self.heap[0][0] <= self.now:
                enabled.append(('e', None))
            for a in self.actors:
                if a.has_work():
                    enabled.append(('a', a))
            if forced is not None:
                forced.yielded = False
                if not enabled:
                    enabled.append(('t', forced))
            if not enabled:
                nxt = None
                if self.heap:
                    nxt = self.heap[0][0]
                for t in self.tasks:
                    if t.state == PARKED and t.deadline is not None:
                        if nxt is None or t.deadline < nxt:
                            nxt = t.deadline
                for a in self.actors:
                    d = a.next_deadline()
                    if d is not None and (nxt is None or d < nxt):
                        nxt = d
                if nxt is None:
                    self.stop_reason = 'quiescent'
                    break
                if nxt > self.now:
                    self.now = nxt
                continue
            self.steps += 1
            kind, obj = enabled[self.choose(len(enabled))]
            if kind != 't' or obj is not self._last_task:
                self.reads_since_progress = 0      # somebody else got to run: not a lone spin
            self._last_task = obj if kind == 't' else None
            if kind == 't':
                self.log('run', obj.name, obj.wait_label or '')
                self._switch_to(obj)
            elif kind == 'e':
                when, _, fn, label = heapq.heappop(self.heap)
                self.log('event', label)
                fn()
            else:
                self.log('actor', obj.name)
                obj.step()
        return self.stop_reason

    def all_done(self, include_daemons=False):
        return all(t.state == DONE for t in self.tasks if include_daemons or not t.daemon)

    def shutdown(self):
        """Tear down: every unfinished task is resumed with SimShutdown."""
        self.shutting_down = True
        for t in self.tasks:
            if t.state != DONE:
                self._switch_to(t)
                if t.state != DONE:
                    # it caught SimShutdown and came back: resume until it ends
                    for _ in range(1000):
                        if t.state == DONE:
                            break
                        self._switch_to(t)
                    else:
                        raise HarnessError('task %s survives shutdown' % t.name)
        for t in self.tasks:
            t.thread.join(timeout=self.wall_timeout)
            if t.thread.is_alive():
                raise HarnessError('thread of task %s still alive' % t.name)
