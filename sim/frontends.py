"""The seven real pymodbus server front-ends mounted on the simulation kernel
behind one interface.

    fe = make_frontend(kind, kernel, context, framing, opts)
    fe.start()
    fe.open(cid)                     # stream kinds: new connection; datagram: new peer address
    fe.deliver(cid, data)            # bytes / one datagram arrive now
    fe.close(cid, how)               # 'eof' | 'reset' (stream kinds)
    fe.output(cid)  -> [bytes, ...]  # what the server wrote to that peer, in order
    fe.errors       -> [(where, repr)]  exceptions that escaped a serving loop
    fe.dropped      -> {cid: reason}    connections the server side ended
    fe.stop()
"""
import asyncio
import logging

from . import net, seams
from .aio import SimLoop, SimAioTransport
from .kernel import HarnessError, DONE

KINDS = ('sync_tcp', 'sync_serial', 'sync_udp', 'aio_tcp', 'aio_udp', 'tw_tcp', 'tw_udp')
STREAM_KINDS = ('sync_tcp', 'sync_serial', 'aio_tcp', 'tw_tcp')
DGRAM_KINDS = ('sync_udp', 'aio_udp', 'tw_udp')

logging.getLogger('asyncio').setLevel(logging.CRITICAL + 1)


def framer_class(framing):
    from pymodbus.framer.socket_framer import ModbusSocketFramer
    from pymodbus.framer.rtu_framer import ModbusRtuFramer
    from pymodbus.framer.ascii_framer import ModbusAsciiFramer
    from pymodbus.framer.binary_framer import ModbusBinaryFramer
    from pymodbus.framer.tls_framer import ModbusTlsFramer
    return {'tcp': ModbusSocketFramer, 'rtu': ModbusRtuFramer, 'ascii': ModbusAsciiFramer,
            'binary': ModbusBinaryFramer, 'tls': ModbusTlsFramer}[framing]


class FakeListenSocket(object):
    def __init__(self):
        self.addr = ('sim-srv', 502)
        self.closed = False

    def setsockopt(self, *a):
        pass

    def bind(self, addr):
        self.addr = tuple(addr) if addr[0] else ('sim-srv', addr[1])

    def listen(self, n=0):
        pass

    def getsockname(self):
        return self.addr

    def fileno(self):
        return 3

    def close(self):
        self.closed = True


class FrontEnd(object):
    kind = None
    stream = True

    def __init__(self, kernel, context, framing, opts):
        self.k = kernel
        self.context = context
        self.framing = framing
        self.framer = framer_class(framing)
        self.opts = dict(opts or {})
        self.errors = []
        self.dropped = {}
        self.server = None

    def server_kwargs(self):
        kw = {}
        if 'ignore_missing_slaves' in self.opts:
            kw['ignore_missing_slaves'] = self.opts['ignore_missing_slaves']
        if 'broadcast_enable' in self.opts:
            kw['broadcast_enable'] = self.opts['broadcast_enable']
        return kw

    def err(self, where, ex):
        self.errors.append((where, '%s: %s' % (type(ex).__name__, ex)))
        self.k.log('escaped', where, type(ex).__name__)

    def stop(self):
        pass

    def task_errors(self):
        pass


# --------------------------------------------------------------------- sync
class SyncTcp(FrontEnd):
    kind = 'sync_tcp'

    def start(self):
        from pymodbus.server.sync import ModbusTcpServer
        self.k.registry['socket_factory'] = lambda fam, typ: FakeListenSocket()
        self.server = ModbusTcpServer(self.context, self.framer, address=('sim-srv', 502),
                                      **self.server_kwargs())
        self.server.handle_error = self._handle_error
        self.conns = {}

    def _handle_error(self, request, client_address):
        import sys
        ex = sys.exc_info()[1]
        self.err('sync_tcp.handle:%s' % (client_address[1],), ex)

    def open(self, cid):
        ch = net.Channel(self.k, 'c%d' % cid)
        sock = net.SimSocket(self.k, ch, 'b', name='srv-c%d' % cid)
        if self.opts.get('socket_timeout'):
            # the application called socket.setdefaulttimeout() (the handler's docstring suggests it to get
            # self.running checked now and then): accepted sockets inherit it and recv() raises socket.timeout
            sock.settimeout(float(self.opts['socket_timeout']))
        self.conns[cid] = (ch, sock)
        # what serve_forever's accept loop does for each accepted connection
        self.server.process_request(sock, ('sim-cli', 1000 + cid))

    def deliver(self, cid, data):
        ch, sock = self.conns[cid]
        ch.ab.push(0.0, bytes(data))

    def close(self, cid, how='eof'):
        ch, sock = self.conns[cid]
        ch.ab.push(0.0, net.EOF if how == 'eof' else net.RESET)

    def output(self, cid):
        return list(self.conns[cid][0].ba.written)

    def server_closed(self, cid):
        return self.conns[cid][1].closed

    def stop(self):
        for cid, (ch, sock) in self.conns.items():
            if sock.closed:
                self.dropped.setdefault(cid, 'closed')
        for t in self.k.tasks:
            if t.exc is not None:
                self.err('task:' + t.name, t.exc)
                t.exc = None


class SyncSerial(FrontEnd):
    kind = 'sync_serial'

    def start(self):
        from pymodbus.server.sync import ModbusSerialServer
        self.timeout = self.opts.get('serial_timeout', 0.05)
        self.ch = net.Channel(self.k, 'ser')
        self.port = None

        def opener(port, timeout):
            self.port = net.SimSerial(self.k, self.ch, 'b', timeout=timeout, name='srv-ser')
            return self.port
        self.k.registry['serial_open'] = opener
        self.server = ModbusSerialServer(self.context, self.framer, port='sim0',
                                         timeout=self.timeout, **self.server_kwargs())
        self.task = self.k.spawn('serial-server', self.server.serve_forever, daemon=True)

    def open(self, cid):
        pass                        # one line, one peer

    def deliver(self, cid, data):
        self.ch.ab.push(0.0, bytes(data))

    def close(self, cid, how='eof'):
        pass

    def output(self, cid):
        return list(self.ch.ba.written)

    def server_closed(self, cid):
        return self.task.state == DONE

    def stop(self):
        if self.task.state == DONE:
            self.dropped[0] = 'serve_forever returned'
        if self.task.exc is not None:
            self.err('sync_serial.serve_forever', self.task.exc)
            self.task.exc = None


class SyncUdp(FrontEnd):
    kind = 'sync_udp'
    stream = False

    def start(self):
        from pymodbus.server.sync import ModbusUdpServer
        self.net = net.DatagramNet(self.k)
        self.srv_addr = ('sim-srv', 502)
        self.sock = None

        def factory(fam, typ):
            self.sock = net.SimDatagramSocket(self.k, self.net, self.srv_addr, name='srv-udp')
            return self.sock
        self.k.registry['socket_factory'] = factory
        self.server = ModbusUdpServer(self.context, self.framer, address=self.srv_addr,
                                      **self.server_kwargs())
        self.server.handle_error = self._handle_error
        self.peers = {}

    def _handle_error(self, request, client_address):
        import sys
        self.err('sync_udp.handle:%s' % (client_address[1],), sys.exc_info()[1])

    def open(self, cid):
        self.peers[cid] = ('sim-cli', 1000 + cid)

    def deliver(self, cid, data):
        # what serve_forever does for each datagram: get_request() + process_request()
        self.server.process_request((bytes(data), self.sock), self.peers[cid])

    def close(self, cid, how='eof'):
        pass

    def output(self, cid):
        addr = self.peers[cid]
        return [d for (src, dst, d) in self.net.sent if dst == addr]

    def stray_output(self):
        known = set(self.peers.values())
        return [(dst, d) for (src, dst, d) in self.net.sent if dst not in known]

    def server_closed(self, cid):
        return False

    def stop(self):
        for t in self.k.tasks:
            if t.exc is not None:
                self.err('task:' + t.name, t.exc)
                t.exc = None


# ------------------------------------------------------------------ asyncio
class AioBase(FrontEnd):
    def _mkloop(self):
        self.loop = SimLoop(self.k)
        asyncio.set_event_loop(self.loop)
        self.k.add_actor(self.loop)

    def _collect(self):
        for ctx in self.loop.unhandled:
            ex = ctx.get('exception')
            self.err('aio.loop-exception-handler', ex if ex is not None else Exception(ctx.get('message')))
        self.loop.unhandled = []

    def _finish_loop(self):
        self._collect()
        for proto in self._protocols():
            proto.running = False
        for t in list(asyncio.all_tasks(self.loop)):
            t.cancel()
        for _ in range(20):
            if not self.loop.has_work():
                break
            self.loop.step()
        self.loop.unhandled = []
        self.loop.sim_close()
        asyncio.set_event_loop(None)


class AioTcp(AioBase):
    kind = 'aio_tcp'

    def _protocols(self):
        return [p for (_, p) in self.conns.values() if p is not None]

    def start(self):
        from pymodbus.server.async_io import ModbusTcpServer
        self._mkloop()
        self.server = ModbusTcpServer(self.context, self.framer, address=('sim-srv', 502),
                                      loop=self.loop, **self.server_kwargs())
        self.serve_task = self.loop.create_task(self.server.serve_forever())
        self.conns = {}

    def _factory(self):
        if not self.loop._sim_servers:
            raise HarnessError('asyncio server not listening yet')
        return self.loop._sim_servers[0].factory

    def open(self, cid):
        # (a peer that re-connects after a crash may come from the same address and port as before)
        port = 1000 + int((self.opts.get('same_addr') or {}).get(str(cid), cid))
        tr = SimAioTransport(self.loop, ('sim-cli', port))
        self.conns[cid] = [tr, None]

        def accept():
            proto = self._factory()()
            tr.protocol = proto
            self.conns[cid][1] = proto
            proto.connection_made(tr)
        self.loop.call_soon(accept)

    def deliver(self, cid, data):
        tr, proto = self.conns[cid]
        if tr.closed or proto is None:
            return
        try:
            self.loop.run_in_loop(proto.data_received, bytes(data))
        except Exception as ex:
            self.err('aio_tcp.data_received', ex)

    def close(self, cid, how='eof'):
        tr, proto = self.conns[cid]
        if not tr.closed and proto is not None:
            tr.closed = True
            exc = None if how == 'eof' else ConnectionResetError(104, 'reset')
            self.loop.call_soon(proto.connection_lost, exc)

    def output(self, cid):
        return [d for (_, d) in self.conns[cid][0].out]

    def server_closed(self, cid):
        return self.conns[cid][0].closed

    def stop(self):
        for cid, (tr, proto) in self.conns.items():
            if tr.closed:
                self.dropped.setdefault(cid, 'closed')
            if proto is not None and proto.handler_task is not None and proto.handler_task.done():
                if not proto.handler_task.cancelled():
                    ex = proto.handler_task.exception()
                    if ex is not None:
                        self.err('aio_tcp.handle-task', ex)
                    elif not tr.closed:
                        self.dropped.setdefault(cid, 'handle() returned')
        if self.serve_task.done() and not self.serve_task.cancelled():
            ex = self.serve_task.exception()
            if ex is not None:
                self.err('aio_tcp.serve_forever', ex)
        self._finish_loop()


class AioUdp(AioBase):
    kind = 'aio_udp'
    stream = False

    def _protocols(self):
        return [p for (_, p) in self.loop._sim_dgram]

    def start(self):
        from pymodbus.server.async_io import ModbusUdpServer
        self._mkloop()
        self.server = ModbusUdpServer(self.context, self.framer, address=('sim-srv', 502),
                                      loop=self.loop, **self.server_kwargs())
        self.serve_task = self.loop.create_task(self.server.serve_forever())
        self.peers = {}

    def open(self, cid):
        self.peers[cid] = ('sim-cli', 1000 + cid)

    def deliver(self, cid, data):
        if not self.loop._sim_dgram:
            raise HarnessError('asyncio udp endpoint not up yet')
        tr, proto = self.loop._sim_dgram[0]
        try:
            self.loop.run_in_loop(proto.datagram_received, bytes(data), self.peers[cid])
        except Exception as ex:
            self.err('aio_udp.datagram_received', ex)

    def close(self, cid, how='eof'):
        pass

    def output(self, cid):
        if not self.loop._sim_dgram:
            return []
        addr = self.peers[cid]
        return [d for (_, d, a) in self.loop._sim_dgram[0][0].out if a == addr]

    def stray_output(self):
        if not self.loop._sim_dgram:
            return []
        known = set(self.peers.values())
        return [(a, d) for (_, d, a) in self.loop._sim_dgram[0][0].out if a not in known]

    def server_closed(self, cid):
        return False

    def stop(self):
        if self.loop._sim_dgram:
            proto = self.loop._sim_dgram[0][1]
            ht = proto.handler_task
            if ht is not None and ht.done() and not ht.cancelled():
                ex = ht.exception()
                if ex is not None:
                    self.err('aio_udp.handle-task', ex)
                else:
                    self.dropped[0] = 'handle() returned'
        if self.serve_task.done() and not self.serve_task.cancelled():
            ex = self.serve_task.exception()
            if ex is not None:
                self.err('aio_udp.serve_forever', ex)
        self._finish_loop()


# ------------------------------------------------------------------ twisted
class TwTransport(object):
    def __init__(self, kernel, cid):
        self.k = kernel
        self.cid = cid
        self.out = []
        self.disconnecting = False
        self.connected = True

    def getHost(self):
        return 'sim-srv:502'

    def getPeer(self):
        return 'sim-cli:%d' % (1000 + self.cid)

    def write(self, data, addr=None):
        data = bytes(data)
        self.k.log('tw-write', self.cid, data)
        self.out.append((data, addr))

    def writeSequence(self, seq):
        for d in seq:
            self.write(d)

    def loseConnection(self):
        self.disconnecting = True

    def close(self):
        self.disconnecting = True


class TwTcp(FrontEnd):
    """Real ModbusServerFactory / ModbusTcpProtocol; the stub reactor is this
    class: it applies the reactor's documented contract for an exception out
    of dataReceived (logged, that connection is lost, nothing else affected)."""
    kind = 'tw_tcp'

    def start(self):
        from pymodbus.server.asynchronous import ModbusServerFactory
        kw = {}
        if 'ignore_missing_slaves' in self.opts:
            kw['ignore_missing_slaves'] = self.opts['ignore_missing_slaves']
        self.server = ModbusServerFactory(self.context, self.framer, **kw)
        self.conns = {}

    def open(self, cid):
        proto = self.server.buildProtocol(('sim-cli', 1000 + cid))
        tr = TwTransport(self.k, cid)
        self.conns[cid] = [tr, proto, True]
        proto.makeConnection(tr)

    def deliver(self, cid, data):
        tr, proto, alive = self.conns[cid]
        if not alive:
            return
        try:
            proto.dataReceived(bytes(data))
        except Exception as ex:
            # twisted.internet.tcp.Connection._dataReceived -> log.err + connectionLost
            self.k.log('tw-dataReceived-raised', cid, type(ex).__name__)
            self.k.count('tw_conn_dropped_on_exception')
            self.conns[cid][2] = False
            self.dropped[cid] = 'dataReceived raised %s' % type(ex).__name__
            try:
                from twisted.python.failure import Failure
                proto.connectionLost(Failure(ex))
            except Exception as ex2:
                self.err('tw_tcp.connectionLost', ex2)

    def close(self, cid, how='eof'):
        tr, proto, alive = self.conns[cid]
        if alive:
            self.conns[cid][2] = False
            from twisted.python.failure import Failure
            from twisted.internet.error import ConnectionDone, ConnectionLost
            try:
                proto.connectionLost(Failure(ConnectionDone() if how == 'eof' else ConnectionLost()))
            except Exception as ex:
                self.err('tw_tcp.connectionLost', ex)

    def output(self, cid):
        return [d for (d, _) in self.conns[cid][0].out]

    def server_closed(self, cid):
        return not self.conns[cid][2]


class TwUdp(FrontEnd):
    kind = 'tw_udp'
    stream = False

    def start(self):
        from pymodbus.server.asynchronous import ModbusUdpProtocol
        kw = {}
        if 'ignore_missing_slaves' in self.opts:
            kw['ignore_missing_slaves'] = self.opts['ignore_missing_slaves']
        self.server = ModbusUdpProtocol(self.context, self.framer, **kw)
        self.tr = TwTransport(self.k, 0)
        self.server.transport = self.tr
        self.peers = {}
        self.raised = []

    def open(self, cid):
        self.peers[cid] = ('sim-cli', 1000 + cid)

    def deliver(self, cid, data):
        try:
            self.server.datagramReceived(bytes(data), self.peers[cid])
        except Exception as ex:
            # twisted.internet.udp.Port.doRead: log.err(), port keeps running
            self.k.log('tw-datagramReceived-raised', cid, type(ex).__name__)
            self.k.count('tw_udp_exception_logged')
            self.raised.append('%s: %s' % (type(ex).__name__, ex))

    def close(self, cid, how='eof'):
        pass

    def output(self, cid):
        addr = self.peers[cid]
        return [d for (d, a) in self.tr.out if a == addr]

    def stray_output(self):
        known = set(self.peers.values())
        return [(a, d) for (d, a) in self.tr.out if a not in known]

    def server_closed(self, cid):
        return False


_CLASSES = {c.kind: c for c in (SyncTcp, SyncSerial, SyncUdp, AioTcp, AioUdp, TwTcp, TwUdp)}


def make_frontend(kind, kernel, context, framing, opts=None):
    seams.install()
    return _CLASSES[kind](kernel, context, framing, opts)
