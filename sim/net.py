"""Simulated byte streams, datagram network and the socket / serial / select /
time objects that the code under test sees instead of the OS.

Nothing here draws a random number: how a written message is cut into
deliveries and how long each delivery takes is decided by a *planner*
function the harness supplies (it reads the scenario).
"""
import socket as _real_socket
from collections import deque

from .kernel import HarnessError

EOF = 'EOF'
RESET = 'RESET'


def _io(k, kind, name, data):
    """transport-level history: (seq, task, kind, endpoint, bytes) for oracles"""
    seq = k.log(kind, name, data)
    k.io.append((seq, k.current.name if k.current is not None else 'sched', kind, name, data))
    if data:
        k.progress()
    return seq


class Pipe(object):
    """One direction of an ordered byte stream.

    write(data) asks the planner for [(delay, bytes|EOF|RESET), ...]; pieces
    become visible to the reader one after the other (FIFO is structural: only
    the head of the queue is ever scheduled)."""

    def __init__(self, kernel, name, planner=None):
        self.k = kernel
        self.name = name
        self.planner = planner
        self.rx = bytearray()
        self.eof = False
        self.reset = False
        self.queue = deque()
        self.scheduled = False
        self.msg_index = 0
        self.total_written = 0
        self.total_delivered = 0
        self.on_deliver = None      # callback(pipe) in scheduler context
        self.written = []           # every write() payload, in order (history)
        self.closed_by_reader = False

    def write(self, data):
        data = bytes(data)
        self.written.append(data)
        self.total_written += len(data)
        self.k.log('write', self.name, data)
        if self.planner is not None:
            pieces = self.planner(self.msg_index, data)
        else:
            pieces = [(0.0, data)]
        self.msg_index += 1
        for p in pieces:
            self.queue.append(p)
        self._kick()

    def push(self, delay, item):
        """Harness-side injection of a raw piece (bytes, EOF or RESET)."""
        self.queue.append((delay, item))
        self._kick()

    def _kick(self):
        if not self.scheduled and self.queue:
            self.scheduled = True
            delay = self.queue[0][0]
            self.k.call_later(delay, self._deliver, 'deliver:' + self.name)

    def _deliver(self):
        self.scheduled = False
        if not self.queue:
            return
        _, item = self.queue.popleft()
        if item is EOF:
            self.eof = True
            self.k.log('eof', self.name)
        elif item is RESET:
            self.reset = True
            self.k.log('reset', self.name)
        else:
            if not self.closed_by_reader:
                self.rx += item
                self.total_delivered += len(item)
            self.k.log('deliver', self.name, bytes(item))
        if self.on_deliver is not None:
            self.on_deliver(self)
        self._kick()

    def readable(self):
        return bool(self.rx) or self.eof or self.reset

    def take(self, n):
        data = bytes(self.rx[:n])
        del self.rx[:n]
        return data

    def idle(self):
        return not self.queue and not self.scheduled


class Channel(object):
    """A bidirectional stream connection between side 'a' and side 'b'."""

    def __init__(self, kernel, name, plan_ab=None, plan_ba=None):
        self.k = kernel
        self.name = name
        self.ab = Pipe(kernel, name + ':a>b', plan_ab)
        self.ba = Pipe(kernel, name + ':b>a', plan_ba)

    def tx(self, side):
        return self.ab if side == 'a' else self.ba

    def rx(self, side):
        return self.ba if side == 'a' else self.ab

    def idle(self):
        return self.ab.idle() and self.ba.idle()


class SimSocket(object):
    """Stream socket endpoint (what a TCP client or an accepted connection sees)."""

    def __init__(self, kernel, channel, side, name='sock'):
        self.k = kernel
        self.ch = channel
        self.side = side
        self.name = name
        self._timeout = None        # None = blocking, 0 = non-blocking
        self.closed = False
        self.send_error = None      # exception instance to raise from next send
        self.sent_frames = []

    # -- configuration
    def settimeout(self, t):
        if t is not None and t < 0:
            raise ValueError('Timeout value out of range')     # as the real socket does
        self._timeout = t

    def gettimeout(self):
        return self._timeout

    def setblocking(self, flag):
        self._timeout = None if flag else 0.0

    def setsockopt(self, *a):
        pass

    def bind(self, addr):
        pass

    def fileno(self):
        return 1000

    def getpeername(self):
        return ('sim-peer', 1)

    def getsockname(self):
        return ('sim-local', 2)

    # -- data
    def _rxp(self):
        return self.ch.rx(self.side)

    def _txp(self):
        return self.ch.tx(self.side)

    def readable(self):
        return self.closed or self.ch is None or self._rxp().readable()

    def recv(self, n, flags=0):
        if n < 0:
            raise ValueError('negative buffersize in recv')     # as the real socket does
        self.k.yield_point('recv')
        if self.closed:
            raise OSError(9, 'Bad file descriptor')
        if self.ch is None:
            raise OSError(107, 'Transport endpoint is not connected')
        p = self._rxp()
        if not p.readable():
            if self._timeout == 0.0:
                raise BlockingIOError(11, 'Resource temporarily unavailable')
            ok = self.k.wait(lambda: self.closed or p.readable(), self._timeout, 'recv:' + self.name)
            if self.closed:
                raise OSError(9, 'Bad file descriptor')
            if not ok:
                self.k.log('recv-timeout', self.name)
                raise _real_socket.timeout('timed out')
        if p.rx:
            data = p.take(n)
            _io(self.k, 'recv', self.name, data)
            return data
        if p.reset:
            self.k.log('recv-reset', self.name)
            raise ConnectionResetError(104, 'Connection reset by peer')
        self.k.log('recv-eof', self.name)
        return b''

    def send(self, data, flags=0):
        self.k.yield_point('send')
        if self.closed:
            raise OSError(9, 'Bad file descriptor')
        if self.ch is None:
            raise OSError(107, 'Transport endpoint is not connected')
        if self.send_error is not None:
            err, self.send_error = self.send_error, None
            self.k.log('send-error', self.name)
            raise err
        if self._rxp().reset:
            raise BrokenPipeError(32, 'Broken pipe')
        data = bytes(data)
        self.sent_frames.append((_io(self.k, 'send', self.name, data), data))
        self._txp().write(data)
        return len(data)

    sendall = send

    def shutdown(self, how):
        pass

    def close(self):
        if not self.closed:
            self.closed = True
            self.k.log('close', self.name)
            if self.ch is not None:
                self._rxp().closed_by_reader = True
                self._txp().push(0.0, EOF)

    def connect(self, addr):
        # unconnected stream socket (TLS client path): establish the channel now
        if self.ch is None:
            self.k.yield_point('connect')
            fn = self.k.registry.get('tcp_connect')
            if fn is None:
                raise ConnectionRefusedError(111, 'Connection refused')
            other = fn(tuple(addr))
            if isinstance(other, BaseException):
                raise other
            self.ch, self.side = other.ch, other.side
            self.k.log('connect', addr[1])


class DatagramNet(object):
    """Datagram delivery between addresses; plan decides drop/dup/delay."""

    def __init__(self, kernel):
        self.k = kernel
        self.endpoints = {}         # addr -> SimDatagramSocket or callable(data, src)
        self.planner = None         # planner(index, src, dst, data) -> [(delay, data), ...]
        self.index = 0
        self.sent = []              # (src, dst, data)

    def sendto(self, src, dst, data):
        data = bytes(data)
        self.sent.append((src, dst, data))
        self.k.log('dgram-send', src, dst, data)
        if self.planner is not None:
            plan = self.planner(self.index, src, dst, data)
        else:
            plan = [(0.0, data)]
        self.index += 1
        for delay, d in plan:
            self.k.call_later(delay, lambda d=d: self._deliver(src, dst, d), 'dgram:%s' % (dst,))

    def _deliver(self, src, dst, data):
        ep = self.endpoints.get(dst)
        self.k.log('dgram-deliver', src, dst, data)
        if ep is None:
            return
        if callable(ep):
            ep(data, src)
        else:
            ep.rxq.append((data, src))


class SimDatagramSocket(object):
    def __init__(self, kernel, net, addr, name='udp'):
        self.k = kernel
        self.net = net
        self.addr = addr
        self.name = name
        self.rxq = deque()
        self._timeout = None
        self.closed = False
        net.endpoints[addr] = self

    def settimeout(self, t):
        if t is not None and t < 0:
            raise ValueError('Timeout value out of range')     # as the real socket does
        self._timeout = t

    def setblocking(self, flag):
        self._timeout = None if flag else 0.0

    def setsockopt(self, *a):
        pass

    def bind(self, addr):
        pass

    def getsockname(self):
        return self.addr

    def fileno(self):
        return 2000

    def readable(self):
        return bool(self.rxq)

    def sendto(self, data, addr):
        self.k.yield_point('sendto')
        _io(self.k, 'send', self.name, bytes(data))
        self.net.sendto(self.addr, tuple(addr), data)
        return len(data)

    def recvfrom(self, size):
        if size < 0:
            raise ValueError('negative buffersize in recvfrom')
        self.k.yield_point('recvfrom')
        if not self.rxq:
            if self._timeout == 0.0:
                raise BlockingIOError(11, 'Resource temporarily unavailable')
            ok = self.k.wait(lambda: bool(self.rxq), self._timeout, 'recvfrom:' + self.name)
            if not ok:
                self.k.log('recvfrom-timeout', self.name)
                raise _real_socket.timeout('timed out')
        data, src = self.rxq.popleft()
        data = data[:size]              # a datagram read with a smaller buffer is truncated
        _io(self.k, 'recv', self.name, data)
        return data, src

    def close(self):
        self.closed = True


class SimSerial(object):
    """pyserial look-alike on one side of a Channel.  read(n) blocks until n
    bytes or the timeout, like pyserial; the inter-byte timeout is not modelled
    (pyserial maps values < 100 ms to VTIME = 0, i.e. none)."""

    def __init__(self, kernel, channel, side, timeout=None, name='ser'):
        self.k = kernel
        self.ch = channel
        self.side = side
        self.timeout = timeout
        self.name = name
        self.is_open = True
        self.interCharTimeout = None
        self.reads = []             # (requested, returned_len, vtime_start, vtime_end)
        self.write_error = None

    def _rxp(self):
        return self.ch.rx(self.side)

    @property
    def in_waiting(self):
        self.k.yield_point('in_waiting')
        if not self.is_open:
            raise OSError('port closed')
        return len(self._rxp().rx)

    def read(self, size=1):
        self.k.yield_point('read')
        if not self.is_open:
            raise OSError('port closed')
        p = self._rxp()
        t0 = self.k.now
        if size is None:
            size = 1
        if size <= 0:
            self.reads.append((size, 0, t0, self.k.now))
            return b''                  # pyserial: nothing to read for a non-positive size
        if size > 0 and len(p.rx) < size and self.timeout != 0:
            self.k.wait(lambda: len(p.rx) >= size or not self.is_open or p.reset, self.timeout, 'read:' + self.name)
            if not self.is_open:
                raise OSError('port closed')
        if p.reset and not p.rx:
            import serial
            self.k.log('read-error', self.name)
            raise serial.SerialException('device reports readiness to read but returned no data')
        data = p.take(size)
        self.reads.append((size, len(data), t0, self.k.now))
        _io(self.k, 'recv', self.name, data)
        return data

    def write(self, data):
        self.k.yield_point('write')
        if not self.is_open:
            raise OSError('port closed')
        if self.write_error is not None:
            err, self.write_error = self.write_error, None
            raise err
        data = bytes(data)
        _io(self.k, 'send', self.name, data)
        self.ch.tx(self.side).write(data)
        return len(data)

    def flush(self):
        pass

    def close(self):
        if self.is_open:
            self.is_open = False
            self.k.log('close', self.name)

    def isOpen(self):
        return self.is_open

    def inWaiting(self):
        return self.in_waiting


def sim_select(kernel, rlist, wlist, xlist, timeout=None):
    if timeout is not None and timeout < 0:
        raise ValueError('timeout must be non-negative')
    kernel.yield_point('select')
    socks = list(rlist)

    def ready():
        return any(s.readable() for s in socks)
    if not ready() and timeout != 0:
        kernel.wait(ready, timeout, 'select')
    r = [s for s in socks if s.readable()]
    kernel.log('select', len(r))
    return r, list(wlist), []


class SimRLock(object):
    """Re-entrant lock whose contention parks the caller in the kernel."""

    def __init__(self, kernel_getter):
        self._kg = kernel_getter
        self.owner = None
        self.depth = 0

    def acquire(self, blocking=True, timeout=-1):
        k = self._kg()
        me = k.current if k is not None else None
        if k is None or me is None:
            self.depth += 1
            return True
        k.yield_point('lock')
        if self.owner is not None and self.owner is not me:
            k.count('lock_contended')
            if not blocking:
                return False
            got = k.wait(lambda: self.owner is None, (timeout if timeout is not None and timeout >= 0 else None), 'lock')
            if not got and self.owner is not None:
                return False            # acquire(timeout=...) gives up like the real lock
        self.owner = me
        self.depth += 1
        k.log('lock-acquire')
        return True

    def release(self):
        k = self._kg()
        if self.depth <= 0 or (k is not None and k.current is not None and self.owner is not None
                               and self.owner is not k.current):
            raise RuntimeError('cannot release un-acquired lock')      # as threading.RLock does
        self.depth -= 1
        if self.depth == 0:
            self.owner = None
            if k is not None and k.current is not None:
                k.log('lock-release')

    __enter__ = acquire

    def __exit__(self, *a):
        self.release()
