#!/venv/bin/python
"""./check.py <Cxx> [--tier quick|thorough] [--replay FILE]
exit 0: property held on everything explored; 1: VIOLATION printed;
2: harness error (never a pass); 3: replay diverged."""
import os
import sys

ROOT = os.path.dirname(os.path.abspath(__file__))
sys.path.insert(0, ROOT)
sys.path.insert(0, '/repo')
sys.dont_write_bytecode = True


def main(argv):
    from engine import runner
    if '--replay' in argv:
        path = argv[argv.index('--replay') + 1]
        return runner.replay_file(path)
    pid = argv[0].upper()
    tier = os.environ.get('VERIF_TIER', 'quick')
    if '--tier' in argv:
        tier = argv[argv.index('--tier') + 1]
    seed = int(os.environ.get('VERIF_SEED', '0') or 0)
    return runner.run_check(pid, tier, seed)


if __name__ == '__main__':
    try:
        rc = main(sys.argv[1:])
    except SystemExit:
        raise
    except BaseException as ex:
        import traceback
        traceback.print_exc()
        print('HARNESS-ERROR: %s: %s' % (type(ex).__name__, ex))
        rc = 2
    sys.stdout.flush()
    os._exit(rc)
