"""Known findings: genuine defects recorded rather than repaired.  The file
/verif/known_findings.json is committed and never written at run time."""
import json
import os

ROOT = os.path.dirname(os.path.dirname(os.path.abspath(__file__)))
PATH = os.path.join(ROOT, 'known_findings.json')


def load(pid=None):
    if not os.path.exists(PATH):
        return []
    with open(PATH) as f:
        doc = json.load(f)
    out = []
    for e in doc.get('findings', []):
        if pid is None or e.get('property') == pid:
            out.append(e)
    return out


def matches(kf, sig):
    """A finding matches a violation signature iff it is open and every key of
    its pattern has exactly that value in the signature (a list in the pattern
    means: any of these values)."""
    if kf.get('status') != 'open':
        return False
    for k, v in kf['pattern'].items():
        if isinstance(v, list):
            if sig.get(k) not in v:
                return False
        elif sig.get(k) != v:
            return False
    return True


def match_any(known, sig):
    for kf in known:
        if matches(kf, sig):
            return kf
    return None
