"""Scenario minimisation: greedy descent over candidates proposed by the
property module, keeping a candidate only while the *same signature* persists."""
import copy
import time


def shrink(prop, scn, sig, deadline, max_tries=1500):
    tries = 0
    msg = None

    def still_bad(s):
        nonlocal msg
        try:
            out = prop.execute(s)
        except Exception:
            return False
        for v in out.get('violations') or []:
            if v['sig'] == sig:
                msg = v['msg']
                return True
        return False

    if not still_bad(scn):
        raise RuntimeError('violation does not reproduce before shrinking')
    if not hasattr(prop, 'shrink_steps'):
        return scn, msg, 0
    cur = scn
    improved = True
    while improved and time.time() < deadline and tries < max_tries:
        improved = False
        for cand in prop.shrink_steps(cur):
            if time.time() > deadline or tries >= max_tries:
                break
            tries += 1
            if still_bad(cand):
                cur = cand
                improved = True
                break
    still_bad(cur)
    return cur, msg, tries


# ----------------------------------------------------------- candidate helpers
def without_chunks(lst):
    """Candidates for a list: drop halves, quarters, ..., single elements."""
    n = len(lst)
    if n == 0:
        return
    size = n // 2
    while size >= 1:
        for start in range(0, n, size):
            cand = lst[:start] + lst[start + size:]
            if len(cand) < n:
                yield cand
        size //= 2


def list_key(scn, key):
    for cand in without_chunks(scn.get(key) or []):
        s = copy.deepcopy(scn)
        s[key] = cand
        yield s


def smaller_ints(v):
    if isinstance(v, bool) or not isinstance(v, int):
        return
    if v == 0:
        return
    yield 0
    if abs(v) > 1:
        yield v // 2
    if v > 0:
        yield v - 1
