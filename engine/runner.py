"""Batch runner: seeded search over scenarios on all cores, triage of violations
against known findings, minimisation, replay files, evidence.

A property module (props/cXX.py) provides
    ID, TITLE, RULE, ASSUMPTIONS, STUBS (dict), QUICK_S, THOROUGH_S
    generate(rng, tier, index) -> scenario (JSON-able dict, contains everything the run depends on)
    execute(scn) -> outcome dict:
        violations: [ {"sig": {...}, "msg": "..."} ]
        inconclusive: bool
        nontrivial: bool            (by the module's stated RULE)
        digest, shape, vtime, steps
        faults: {kind: fired count}, probes: {name: count}, cell: "..."
    systematic(tier) -> iterable of scenarios (optional)
    shrink_steps(scn) -> iterable of candidate scenarios strictly "smaller" than scn (optional)
"""
import concurrent.futures as cf
import faulthandler
import hashlib
import importlib
import json
import multiprocessing
import os
import random
import subprocess
import sys
import time
import traceback

from . import findings as findings_mod
from . import shrink as shrink_mod

ROOT = os.path.dirname(os.path.dirname(os.path.abspath(__file__)))
NPROC = int(os.environ.get('VERIF_NPROC', '16'))


def load_prop(pid):
    return importlib.import_module('props.%s' % pid.lower())


def scenario_rng(seed, pid, tier, index):
    h = hashlib.blake2b(('%d/%s/%s/%d' % (seed, pid, tier, index)).encode(), digest_size=8).digest()
    return random.Random(int.from_bytes(h, 'big'))


def scenario_digest(scn):
    return hashlib.blake2b(json.dumps(scn, sort_keys=True).encode(), digest_size=8).hexdigest()


def sig_key(sig):
    return json.dumps(sig, sort_keys=True)


class Agg(object):
    def __init__(self):
        self.runs = 0
        self.inconclusive = 0
        self.nontrivial = 0
        self.vtime = 0.0
        self.steps = 0
        self.faults = {}
        self.probes = {}
        self.cells = {}
        self.shapes = set()
        self.violations = {}        # sig_key -> {"sig", "msg", "scn", "count", "origin"}
        self.samples = []
        self.harness_errors = []

    def add_outcome(self, scn, out, origin, keep_sample=False):
        self.runs += 1
        if out.get('inconclusive'):
            self.inconclusive += 1
        if out.get('nontrivial'):
            self.nontrivial += 1
            self.shapes.add(out.get('shape'))
        self.vtime += out.get('vtime', 0.0)
        self.steps += out.get('steps', 0)
        for kname, v in (out.get('faults') or {}).items():
            self.faults[kname] = self.faults.get(kname, 0) + v
        for kname, v in (out.get('probes') or {}).items():
            self.probes[kname] = self.probes.get(kname, 0) + v
        cell = out.get('cell')
        if cell:
            c = self.cells.setdefault(cell, [0, 0])
            c[0] += 1
            if out.get('violations'):
                c[1] += 1
        for v in out.get('violations') or []:
            key = sig_key(v['sig'])
            e = self.violations.get(key)
            if e is None:
                self.violations[key] = {'sig': v['sig'], 'msg': v['msg'], 'scn': scn, 'count': 1,
                                        'origin': origin, 'scn_first': scn, 'origin_first': origin}
            else:
                e['count'] += 1
                # keep the smallest witness seen
                if len(json.dumps(scn)) < len(json.dumps(e['scn'])):
                    e['scn'] = scn
                    e['msg'] = v['msg']
                    e['origin'] = origin
        if keep_sample and len(self.samples) < 3:
            self.samples.append(scn)

    def merge(self, other):
        self.runs += other.runs
        self.inconclusive += other.inconclusive
        self.nontrivial += other.nontrivial
        self.vtime += other.vtime
        self.steps += other.steps
        for d_me, d_o in ((self.faults, other.faults), (self.probes, other.probes)):
            for kname, v in d_o.items():
                d_me[kname] = d_me.get(kname, 0) + v
        for cname, (a, b) in other.cells.items():
            c = self.cells.setdefault(cname, [0, 0])
            c[0] += a
            c[1] += b
        self.shapes |= other.shapes
        for key, e in other.violations.items():
            m = self.violations.get(key)
            if m is None:
                self.violations[key] = e
            else:
                m['count'] += e['count']
                if len(json.dumps(e['scn'])) < len(json.dumps(m['scn'])):
                    m['scn'], m['msg'], m['origin'] = e['scn'], e['msg'], e['origin']
        for s in other.samples:
            if len(self.samples) < 4:
                self.samples.append(s)
        self.harness_errors += other.harness_errors


def _worker(pid, tier, seed, start, stride, deadline, max_runs, kind):
    """Runs scenarios index = start, start+stride, ... until deadline / max_runs."""
    faulthandler.enable()
    sys.path.insert(0, ROOT)
    prop = load_prop(pid)
    agg = Agg()
    idx = start
    n = 0
    try:
        if kind == 'systematic':
            for i, scn in enumerate(prop.systematic(tier)):
                if i % stride != start:
                    continue
                if time.time() > deadline:
                    agg.probes['systematic_cut_short'] = 1
                    break
                out = prop.execute(scn)
                agg.add_outcome(scn, out, 'systematic#%d' % i, keep_sample=(n < 1))
                n += 1
        else:
            while time.time() < deadline and n < max_runs:
                scn = prop.generate(scenario_rng(seed, pid, tier, idx), tier, idx)
                out = prop.execute(scn)
                agg.add_outcome(scn, out, 'seed=%d index=%d' % (seed, idx), keep_sample=(n < 1))
                idx += stride
                n += 1
    except Exception as ex:
        agg.harness_errors.append('%s at index %d: %s\n%s' % (type(ex).__name__, idx, ex, traceback.format_exc()))
    return agg


def run_batch(pid, tier, seed, budget_s, kind='seeded', max_runs=10 ** 9):
    import warnings
    # the executor starts its own management thread before it forks the later workers; the workers
    # never touch that thread's state (each runs _worker and returns an Agg)
    warnings.filterwarnings('ignore', message='.*multi-threaded, use of fork.*', category=DeprecationWarning)
    ctx = multiprocessing.get_context('fork')
    deadline = time.time() + budget_s
    total = Agg()
    per = max_runs if max_runs >= 10 ** 9 else (max_runs + NPROC - 1) // NPROC
    with cf.ProcessPoolExecutor(max_workers=NPROC, mp_context=ctx) as ex:
        futs = [ex.submit(_worker, pid, tier, seed, w, NPROC, deadline, per, kind) for w in range(NPROC)]
        for f in futs:
            try:
                total.merge(f.result(timeout=budget_s + 120))
            except Exception as e:
                total.harness_errors.append('worker failed: %s: %s' % (type(e).__name__, e))
    return total


# --------------------------------------------------------------------- replay
def write_replay(pid, scn, sig, msg, digest, origin, tag, prelude=None):
    d = os.path.join(ROOT, 'out', 'replays')
    os.makedirs(d, exist_ok=True)
    path = os.path.join(d, '%s-%s.json' % (pid, tag))
    doc = {'property': pid, 'format': 1, 'origin': origin, 'signature': sig, 'message': msg,
           'digest': digest, 'scenario': scn}
    if prelude:
        # history-dependent violation: these scenarios are executed first, in this order, in the
        # same interpreter (the code under test carries state from one execution into the next)
        doc['prelude'] = prelude
    with open(path, 'w') as f:
        json.dump(doc, f, indent=1, sort_keys=True)
    return path


def replay_file(path, verbose=True):
    """Exit code: 1 violation reproduced, 0 no violation, 3 diverged."""
    with open(path) as f:
        doc = json.load(f)
    prop = load_prop(doc['property'])
    for pre in doc.get('prelude') or []:
        prop.execute(pre)
    out = prop.execute(doc['scenario'])
    sigs = [v['sig'] for v in out.get('violations') or []]
    want = doc.get('signature')
    if verbose:
        print('replay %s: digest=%s stored=%s' % (path, out.get('digest'), doc.get('digest')))
        for v in out.get('violations') or []:
            print('  violation: %s :: %s' % (json.dumps(v['sig'], sort_keys=True), v['msg']))
    if want is not None and want in sigs:
        if doc.get('digest') and doc['digest'] != out.get('digest'):
            print('REPLAY-DIVERGED digest differs although the violation reproduced')
            return 3
        print('VIOLATION property=%s replay=%s' % (doc['property'], path))
        return 1
    if want is not None:
        print('REPLAY-DIVERGED stored violation did not reproduce')
        return 3
    return 1 if sigs else 0


def confirm_in_fresh_interpreter(path):
    env = dict(os.environ)
    env['PYTHONHASHSEED'] = '12345'
    p = subprocess.run([sys.executable, os.path.join(ROOT, 'check.py'), '--replay', path],
                       capture_output=True, text=True, env=env, timeout=300)
    return p.returncode == 1, p.stdout[-2000:] + p.stderr[-2000:]


def predecessors(prop, pid, tier, seed, origin, n):
    """The up to n scenarios the same worker executed right before the one at `origin`."""
    out = []
    try:
        if origin.startswith('seed='):
            idx = int(origin.split('index=')[1])
            i = idx - NPROC
            while i >= 0 and len(out) < n:
                out.append(prop.generate(scenario_rng(seed, pid, tier, i), tier, i))
                i -= NPROC
        elif origin.startswith('systematic#'):
            idx = int(origin.split('#')[1])
            want = set(range(idx - NPROC * n, idx, NPROC))
            for i, scn in enumerate(prop.systematic(tier)):
                if i >= idx:
                    break
                if i in want:
                    out.insert(0, scn)
    except Exception:
        pass
    out.reverse() if origin.startswith('seed=') else None
    return out          # oldest first


def confirm_with_history(prop, pid, tier, seed, e, tag):
    """A violation that does not reproduce on its own in a fresh interpreter may depend on state the
    code under test carried over from earlier executions in the worker process.  Look for a prelude
    (earlier scenarios of the same worker) that reproduces it from a fresh interpreter, minimise the
    prelude, and return the replay path - or None."""
    scn, sig = e.get('scn_first', e['scn']), e['sig']
    origin = e.get('origin_first', e['origin'])
    for n in (1, 2, 4, 8, 16, 32, 64, 128):
        pre = predecessors(prop, pid, tier, seed, origin, n)
        if not pre:
            return None
        path = write_replay(pid, scn, sig, e['msg'], None, origin, tag + '-hist', prelude=pre)
        ok, _ = confirm_in_fresh_interpreter(path)
        if ok:
            # greedy minimisation of the prelude (each trial is a fresh interpreter)
            changed = True
            trials = 0
            while changed and len(pre) > 1 and trials < 40:
                changed = False
                size = max(1, len(pre) // 2)
                while size >= 1 and not changed:
                    for start in range(0, len(pre), size):
                        cand = pre[:start] + pre[start + size:]
                        if not cand:
                            continue
                        trials += 1
                        p2 = write_replay(pid, scn, sig, e['msg'], None, origin, tag + '-hist', prelude=cand)
                        ok2, _ = confirm_in_fresh_interpreter(p2)
                        if ok2:
                            pre = cand
                            changed = True
                            break
                        if trials >= 40:
                            break
                    size //= 2
            return write_replay(pid, scn, sig, e['msg'], None, origin, tag + '-hist', prelude=pre)
        if len(pre) < n:
            break
    return None


# ---------------------------------------------------------------------- main
def run_check(pid, tier, seed):
    t_start = time.time()
    prop = load_prop(pid)
    known = findings_mod.load(pid)
    budget = float(os.environ.get('VERIF_BUDGET_S') or (prop.QUICK_S if tier == 'quick' else prop.THOROUGH_S))
    print('check %s tier=%s VERIF_SEED=%d budget=%.0fs nproc=%d' % (pid, tier, seed, budget, NPROC))
    sys.stdout.flush()
    exit_code = 0
    lines = []

    # 1. stored scenarios of open findings: always re-executed, always reported
    known_status = []
    for kf in known:
        if kf.get('status') != 'open':
            continue
        reproduced = False
        if kf.get('scenario') is not None:
            out = prop.execute(kf['scenario'])
            reproduced = any(findings_mod.matches(kf, v['sig']) for v in out.get('violations') or [])
        if reproduced or kf.get('scenario') is None:
            print('KNOWN-FINDING: property=%s %s' % (pid, kf['what']))
        else:
            print('KNOWN-FINDING-NOT-REPRODUCED: property=%s %s (stored scenario no longer violates)'
                  % (pid, kf['what']))
        known_status.append({'id': kf['id'], 'reproduced': reproduced})

    total = Agg()
    # 2. systematic sweep
    if hasattr(prop, 'systematic'):
        sb = budget * 0.45
        a = run_batch(pid, tier, seed, sb, kind='systematic')
        total.merge(a)
        print('systematic: %d runs, %d violating signatures' % (a.runs, len(a.violations)))
        sys.stdout.flush()
    # 3. seeded search
    remaining = max(5.0, budget - (time.time() - t_start))
    a = run_batch(pid, tier, seed, remaining, kind='seeded')
    total.merge(a)
    print('seeded: %d runs, %d violating signatures' % (a.runs, len(a.violations)))
    sys.stdout.flush()

    # 4. triage
    new = []
    known_hits = {}
    for key, e in sorted(total.violations.items()):
        kf = findings_mod.match_any(known, e['sig'])
        if kf is not None:
            known_hits[kf['id']] = known_hits.get(kf['id'], 0) + e['count']
        else:
            new.append(e)
    replays = []
    shrink_deadline = time.time() + (60 if tier == 'quick' else 240)
    for e in new[:8]:
        scn, msg = e['scn'], e['msg']
        try:
            scn, msg, tries = shrink_mod.shrink(prop, scn, e['sig'], deadline=min(shrink_deadline, time.time() + 30))
        except Exception as ex:
            tries = -1
            print('shrink failed: %s' % ex)
        out = prop.execute(scn)
        tag = '%d-%s' % (seed, scenario_digest(scn))
        path = write_replay(pid, scn, e['sig'], msg, out.get('digest'), e['origin'], tag)
        ok, text = confirm_in_fresh_interpreter(path)
        if ok:
            print('VIOLATION property=%s replay=%s' % (pid, path))
            print('  signature: %s' % json.dumps(e['sig'], sort_keys=True))
            print('  %s  (seen %d times; first at %s; shrink tries %d)' % (msg, e['count'], e['origin'], tries))
            exit_code = 1
            replays.append(path)
        else:
            hist = confirm_with_history(prop, pid, tier, seed, e, tag)
            if hist is not None:
                print('VIOLATION property=%s replay=%s' % (pid, hist))
                print('  signature: %s' % json.dumps(e['sig'], sort_keys=True))
                print('  %s  (history-dependent: reproduces only after the prelude scenarios stored in the replay file were '
                      'executed in the same interpreter - state leaks from one execution into the next; first at %s)'
                      % (e['msg'], e.get('origin_first', e['origin'])))
                exit_code = 1
                replays.append(hist)
            else:
                print('HARNESS-ERROR: violation did not reproduce in a fresh interpreter: %s\n%s' % (path, text))
                exit_code = 2
    if len(new) > 8:
        print('... and %d more distinct violating signatures' % (len(new) - 8))
        if os.environ.get('VERIF_LIST_ALL'):
            for e in new[8:]:
                print('  more: %s | %s' % (json.dumps(e['sig'], sort_keys=True), str(e['msg'])[:200]))
    for he in total.harness_errors[:5]:
        print('HARNESS-ERROR: %s' % he)
    if total.harness_errors and exit_code == 0:
        exit_code = 2
    if total.runs and total.inconclusive > 0.2 * total.runs:
        print('HARNESS-ERROR: %d of %d runs inconclusive (> 20%%)' % (total.inconclusive, total.runs))
        if exit_code == 0:
            exit_code = 2
    for kname, v in sorted(total.probes.items()):
        if v == 0:
            print('PROBE-ZERO: %s' % kname)

    wall = time.time() - t_start
    write_evidence(prop, pid, tier, seed, total, wall, known_status, known_hits, len(new), replays)
    print('done %s: %d runs (%.0f runs/h), %d distinct non-trivial shapes, simulated %.1f s, wall %.1f s, exit %d'
          % (pid, total.runs, total.runs / max(wall, 1e-9) * 3600, len(total.shapes), total.vtime, wall, exit_code))
    return exit_code


def write_evidence(prop, pid, tier, seed, total, wall, known_status, known_hits, n_new, replays):
    os.makedirs(os.path.join(ROOT, 'evidence'), exist_ok=True)
    cells = {c: {'runs': a, 'violating_runs': b} for c, (a, b) in sorted(total.cells.items())}
    doc = {
        'property_id': pid, 'tier': tier, 'seed': seed, 'level': 'exploration',
        'coverage': {
            'evaluations': total.runs,
            'distinct_nontrivial': len(total.shapes),
            'rule': prop.RULE,
            'samples': total.samples[:3],
            'runs_per_hour': int(total.runs / max(wall, 1e-9) * 3600),
            'seeds_per_hour': int(total.runs / max(wall, 1e-9) * 3600),
            'simulated_seconds': round(total.vtime, 3),
            'kernel_steps': total.steps,
            'inconclusive_runs': total.inconclusive,
            'nontrivial_runs': total.nontrivial,
            'faults_fired': dict(sorted(total.faults.items())),
            'probes': dict(sorted(total.probes.items())),
            'cells': cells,
            'components': prop.STUBS,
            'known_findings': known_status,
            'known_finding_hits_in_search': known_hits,
            'new_violation_signatures': n_new,
            'replays': replays,
            'workers': NPROC,
        },
        'assumptions': list(prop.ASSUMPTIONS),
        'wall_s': round(wall, 2),
        'violations': n_new,
    }
    with open(os.path.join(ROOT, 'evidence', '%s.json' % pid), 'w') as f:
        json.dump(doc, f, indent=1, sort_keys=True)
