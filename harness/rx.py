"""H-RX: one real framer object as the reader of a byte stream.

run(scn) feeds `chunks` (explicit list of hex strings: the arrival schedule) to
framer.processIncomingPacket exactly as every front-end does - one call per
read - and records, through an observation-only decoder proxy, the PDU bytes
the framer extracted for each delivery plus the header fields it attached.

scn: framing, decoder ('server'|'client'), chunks [hex...], units [ints] | None,
     single (bool), on_exception ('reset'|'keep'): what the receiving loop does
     when processIncomingPacket raises ('reset' = policy of the serial handlers)
"""
from sim import seams
from sim.kernel import Kernel
from sim.frontends import framer_class


class RxDecoder(object):
    def __init__(self, real, sink, k):
        self._real = real
        self._sink = sink
        self._k = k

    def lookupPduClass(self, fc):
        return self._real.lookupPduClass(fc)

    def register(self, *a, **kw):
        return self._real.register(*a, **kw)

    def decode(self, data):
        data = bytes(data)
        self._k.log('decode', data)
        msg = self._real.decode(data)
        self._sink.append({'pdu': data, 'ok': msg is not None, 'obj': msg})
        return msg


class RxResult(object):
    pass


def run(scn, keep_log=False):
    seams.install()
    from pymodbus.factory import ServerDecoder, ClientDecoder
    k = Kernel(keep_log=keep_log)
    seams.set_kernel(k)
    try:
        real = ServerDecoder() if scn.get('decoder', 'server') == 'server' else ClientDecoder()
        decodes = []
        dec = RxDecoder(real, decodes, k)
        framer = framer_class(scn['framing'])(dec, client=None)
        delivered = []
        exceptions = []
        backlog = []
        units = scn.get('units')
        single = scn.get('single', True)
        on_exc = scn.get('on_exception', 'reset')

        def callback(msg):
            pdu = None
            for d in reversed(decodes):
                if d['obj'] is msg:
                    pdu = d['pdu']
                    break
            rec = {'chunk': cur[0], 'pdu': pdu, 'cls': type(msg).__name__,
                   'unit': getattr(msg, 'unit_id', None), 'tid': getattr(msg, 'transaction_id', None),
                   'pid': getattr(msg, 'protocol_id', None), 'fc': getattr(msg, 'function_code', None)}
            k.log('deliver-msg', rec['cls'], rec['unit'], rec['tid'], pdu)
            delivered.append(rec)
        cur = [0]
        for i, hx in enumerate(scn['chunks']):
            cur[0] = i
            data = bytes.fromhex(hx)
            k.log('chunk', data)
            try:
                if units is None:
                    framer.processIncomingPacket(data, callback, 0, single=True)
                elif scn.get('client_style'):
                    framer.processIncomingPacket(data, callback, units[0])
                else:
                    framer.processIncomingPacket(data, callback, list(units), single=single)
            except Exception as ex:
                k.log('rx-exception', type(ex).__name__)
                exceptions.append({'chunk': i, 'type': type(ex).__name__, 'text': str(ex)[:80]})
                if on_exc == 'reset':
                    framer.resetFrame()
            backlog.append(len(framer._buffer))
        res = RxResult()
        res.delivered = delivered
        res.exceptions = exceptions
        res.backlog = backlog
        res.decodes = [{'pdu': d['pdu'], 'ok': d['ok']} for d in decodes]
        res.digest = k.digest()
        res.shape = k.shape_digest()
        res.log = k.events if keep_log else None
        return res
    finally:
        seams.set_kernel(None)


def view(delivered):
    """comparison key of a delivery list (what C06/C07 compare)"""
    return [(d['pdu'], d['cls'], d['unit'], d['tid'], d['pid']) for d in delivered]
