"""An application-defined ("custom") Modbus function, as a user of the library would write one and hand to a
server through `custom_functions=[...]` / `server.decoder.register(...)`: function code 0x41, two data bytes,
answered with an echo.  Part of the workload, not of the code under test."""
CUSTOM_FC = 0x41

_classes = {}


def classes():
    if _classes:
        return _classes['rq'], _classes['rsp']
    from pymodbus.pdu import ModbusRequest, ModbusResponse

    class CustomEchoResponse(ModbusResponse):
        function_code = CUSTOM_FC
        _rtu_frame_size = 6

        def __init__(self, data=b'\x00\x00', **kwargs):
            ModbusResponse.__init__(self, **kwargs)
            self.data = bytes(data)

        def encode(self):
            return self.data

        def decode(self, data):
            self.data = bytes(data)

    class CustomEchoRequest(ModbusRequest):
        function_code = CUSTOM_FC
        _rtu_frame_size = 6

        def __init__(self, data=b'\x00\x00', **kwargs):
            ModbusRequest.__init__(self, **kwargs)
            self.data = bytes(data)

        def encode(self):
            return self.data

        def decode(self, data):
            self.data = bytes(data)

        def execute(self, context):
            return CustomEchoResponse(self.data)

    _classes['rq'], _classes['rsp'] = CustomEchoRequest, CustomEchoResponse
    return CustomEchoRequest, CustomEchoResponse
