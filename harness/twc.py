"""H-TWC: the real Twisted client protocol objects on a fake transport.

scn: variant 'tcp' (ModbusClientProtocol + socket framer, dict manager) |
             'serial' (ModbusSerClientProtocol + RTU framer, FIFO manager)
     tid_start, events [...]:
       {'e':'req','id':n,'count':c,'addr':a}         issue read_holding_registers(a, c, unit=1); optional 'kind':
                                                     'rc' read_coils / 'wr' write_register, 'exc': code = the server
                                                     answers with that exception
       {'e':'reply','ids':[...],'coalesce':bool}      deliver correct replies for those requests (this order)
       {'e':'unsolicited','tid':t}                    deliver a well-formed reply nobody asked for
       {'e':'dup','id':n}                             deliver request n's reply once more
       {'e':'lose'}                                   connectionLost
       {'e':'close'}                                  the application calls protocol.close() (a 'lose' follows later)
     Replies carry unique register values derived from the request id.
"""
from sim import seams
from sim.kernel import Kernel
from ref import codec


class TwTransport(object):
    def __init__(self, k):
        self.k = k
        self.out = []
        self.closed = False

    def write(self, data):
        data = bytes(data)
        self.k.log('tw-client-write', data)
        self.out.append(data)

    def loseConnection(self):
        self.closed = True

    def close(self):
        self.closed = True

    def getHost(self):
        return 'cli'

    def getPeer(self):
        return 'srv'


def reply_values(rid, count):
    return [((rid * 131 + i * 7) & 0x7FFF) | 0x0100 for i in range(count)]


def reply_bits(rid, count):
    return [bool(((rid * 2654435761) >> (i % 31)) & 1) for i in range(count)]


def request_pdu_of(rec):
    kind = rec.get('kind', 'rhr')
    if kind == 'rhr':
        return codec.req_read(3, rec['addr'], rec['count'])
    if kind == 'rc':
        return codec.req_read(1, rec['addr'], rec['count'])
    if kind == 'wr':
        return codec.req_write_reg(rec['addr'], reply_values(rec['id'], 1)[0])
    raise ValueError(kind)


def reply_pdu_of(rec):
    """The reply the reference server sends for this request (unique content per request id)."""
    rq = request_pdu_of(rec)
    if rec.get('exc'):
        return codec.rsp_exception(rq[0], rec['exc'])
    kind = rec.get('kind', 'rhr')
    if kind == 'rhr':
        return codec.rsp_regs(3, reply_values(rec['id'], rec['count']))
    if kind == 'rc':
        return codec.rsp_bits(1, reply_bits(rec['id'], rec['count']))
    return rq                       # write single register: echo


def expected_summary(rec):
    """What the object handed to the callback has to carry for this request."""
    rq = request_pdu_of(rec)
    if rec.get('exc'):
        return {'cls': 'ExceptionResponse', 'fc': rq[0] | 0x80, 'exc': rec['exc']}
    kind = rec.get('kind', 'rhr')
    if kind == 'rhr':
        return {'cls': 'ReadHoldingRegistersResponse', 'fc': 3, 'regs': reply_values(rec['id'], rec['count'])}
    if kind == 'rc':
        return {'cls': 'ReadCoilsResponse', 'fc': 1, 'bits': reply_bits(rec['id'], rec['count'])}
    return {'cls': 'WriteSingleRegisterResponse', 'fc': 6, 'address': rec['addr'], 'value': reply_values(rec['id'], 1)[0]}


def summarize(result, rec):
    d = {'cls': type(result).__name__, 'fc': getattr(result, 'function_code', None)}
    if hasattr(result, 'exception_code'):
        d['exc'] = result.exception_code
    elif hasattr(result, 'registers'):
        d['regs'] = list(result.registers)
    elif hasattr(result, 'bits'):
        d['bits'] = [bool(b) for b in result.bits][:rec['count']]
    elif hasattr(result, 'value'):
        d['address'] = getattr(result, 'address', None)
        d['value'] = result.value
    return d


class TwcResult(object):
    pass


def run(scn, keep_log=False):
    seams.install()
    seams.reset_globals()
    from pymodbus.client.asynchronous.twisted import ModbusClientProtocol, ModbusSerClientProtocol
    from pymodbus.exceptions import ConnectionException
    k = Kernel(keep_log=keep_log)
    seams.set_kernel(k)
    try:
        variant = scn['variant']
        framing = 'tcp' if variant == 'tcp' else 'rtu'
        proto = ModbusClientProtocol() if variant == 'tcp' else ModbusSerClientProtocol()
        tr = TwTransport(k)
        proto.makeConnection(tr)
        if scn.get('tid_start') is not None:
            proto.transaction.tid = int(scn['tid_start'])
        reqs = {}          # id -> record
        order = []
        stray_errors = []
        connected = True

        def issue(ev):
            rid = ev['id']
            rec = {'id': rid, 'count': ev.get('count', 1), 'addr': ev.get('addr', rid & 0xFFFF), 'cb': [], 'eb': [],
                   'kind': ev.get('kind', 'rhr'), 'exc': ev.get('exc'),
                   'issued_connected': connected, 'seq': k.log('issue', rid)}
            reqs[rid] = rec
            order.append(rid)
            n0 = len(tr.out)
            try:
                if rec['kind'] == 'rc':
                    d = proto.read_coils(rec['addr'], rec['count'], unit=1)
                elif rec['kind'] == 'wr':
                    d = proto.write_register(rec['addr'], reply_values(rid, 1)[0], unit=1)
                else:
                    d = proto.read_holding_registers(rec['addr'], rec['count'], unit=1)
            except Exception as ex:
                rec['raised'] = type(ex).__name__
                return
            wrote = tr.out[n0:]
            rec['wire'] = wrote[0] if wrote else None
            rec['tid'] = None
            if wrote:
                try:
                    u, tid, pid, pdu = codec.parse_frame(framing, wrote[0])
                    rec['tid'] = tid
                    rec['wire_ok'] = (pdu == request_pdu_of(rec) and u == 1)
                except codec.Malformed:
                    rec['wire_ok'] = False

            def cb(result, rec=rec):
                rec['cb'].append({'seq': k.log('callback', rec['id']), 'regs': list(getattr(result, 'registers', []) or []),
                                  'tid': getattr(result, 'transaction_id', None), 'cls': type(result).__name__,
                                  'summary': summarize(result, rec)})
                return None

            def eb(failure, rec=rec, ev=ev):
                rec['eb'].append({'seq': k.log('errback', rec['id']), 'type': failure.type.__name__})
                if ev.get('reissue') and not rec.get('reissued'):
                    # the application retries from inside its errback (a common pattern)
                    rec['reissued'] = True
                    issue(dict(ev['reissue'], e='req'))
                return None
            d.addCallbacks(cb, eb)

        def frame_for(rid):
            rec = reqs[rid]
            return codec.frame(framing, 1, reply_pdu_of(rec), tid=rec.get('tid') or 0)

        def feed(data):
            try:
                proto.dataReceived(data)
            except Exception as ex:
                k.log('dataReceived-raised', type(ex).__name__)
                stray_errors.append(type(ex).__name__)

        for ev in scn['events']:
            e = ev['e']
            if e == 'req':
                issue(ev)
            elif e == 'reply':
                frames = [frame_for(r) for r in ev['ids'] if r in reqs]
                if ev.get('coalesce'):
                    k.log('rx', b''.join(frames))
                    feed(b''.join(frames))
                else:
                    for fr in frames:
                        k.log('rx', fr)
                        feed(fr)
            elif e == 'rx':
                # several frames (genuine replies, unsolicited, duplicates) in one stream segment,
                # optionally cut into pieces: one dataReceived call per piece
                blob = b''
                for part in ev['parts']:
                    if part['kind'] == 'reply' and part['id'] in reqs:
                        blob += frame_for(part['id'])
                    elif part['kind'] == 'dup' and part['id'] in reqs:
                        blob += frame_for(part['id'])
                    elif part['kind'] == 'unsolicited':
                        blob += codec.frame(framing, 1, codec.rsp_regs(3, [0x7E01, 0x7E02]), tid=part.get('tid', 0))
                cuts = sorted(set(c for c in (ev.get('cuts') or []) if 0 < c < len(blob)))
                pos = 0
                for c in cuts + [len(blob)]:
                    k.log('rx', blob[pos:c])
                    feed(blob[pos:c])
                    pos = c
            elif e == 'unsolicited':
                fr = codec.frame(framing, 1, codec.rsp_regs(3, [0x7E01, 0x7E02]), tid=ev.get('tid', 0))
                k.log('rx-unsolicited', fr)
                feed(fr)
            elif e == 'dup':
                if ev['id'] in reqs:
                    k.log('rx-dup', ev['id'])
                    feed(frame_for(ev['id']))
            elif e == 'close':
                # the application closes the client; the transport reports the loss later ('lose')
                connected = False
                k.log('close')
                try:
                    proto.close()
                except Exception as ex:
                    stray_errors.append('close:' + type(ex).__name__)
            elif e == 'lose':
                connected = False
                k.log('lose')
                try:
                    proto.connectionLost(None)
                except Exception as ex:
                    stray_errors.append('connectionLost:' + type(ex).__name__)
            k.count('ev_' + e)
        res = TwcResult()
        res.reqs = reqs
        res.order = order
        res.stray = stray_errors
        res.pending_left = len(list(proto.transaction))
        res.digest = k.digest()
        res.shape = k.shape_digest()
        res.counters = dict(k.counters)
        res.log = k.events if keep_log else None
        return res
    finally:
        seams.set_kernel(None)
