"""H-CLI: one real synchronous pymodbus client, 1-4 caller tasks, a scripted
reference server (spec-derived codec) on the other end of the simulated link.

Scenario (JSON):
  client: {kind: 'tcp'|'udp'|'serial'|'tls', framing: 'tcp'|'rtu'|'ascii'|'binary'|'tls',
           kwargs: {timeout, retries, retry_on_empty, retry_on_invalid, backoff, broadcast_enable, baudrate, strict}}
  tid_start: int (optional)     initial value of the transaction-id counter
  callers: [[OP, ...], ...]
  OP = {fn, args (dict), unit, reply: {'regs':[..]} | {'bits':[..]} | {'echo':true} | {'raw': hex}, | {'exc': code},
        script: [ATTEMPT, ...]}    ATTEMPT = {act, delay, cuts, k, hex, code}
  After the script of an OP is exhausted the peer answers correctly ('reply').
  connect_script: ['ok'|'refuse', ...]  per connection attempt (default ok)
  caller_delay: [seconds, ...]  per caller: delay before its first call (default 0)
  cpu_step, sched
"""
import struct

from sim import seams, net
from sim.kernel import Kernel, HarnessError, DONE
from ref import codec

FN_FC = {'read_coils': 1, 'read_discrete_inputs': 2, 'read_holding_registers': 3, 'read_input_registers': 4,
         'write_coil': 5, 'write_register': 6, 'write_coils': 15, 'write_registers': 16,
         'mask_write_register': 22, 'readwrite_registers': 23, 'diag_query_data': 8, 'read_exception_status': 7,
         # extended set (requests without a mixin method; issued through client.execute)
         'diag': 8, 'get_comm_event_counter': 11, 'get_comm_event_log': 12, 'report_slave_id': 17,
         'read_file_record': 20, 'write_file_record': 21, 'read_fifo_queue': 24, 'read_device_information': 43}
# requests that carry no field at all: at most one of each per scenario (the peer tells requests apart by content)
FIELDLESS = ('read_exception_status', 'get_comm_event_counter', 'get_comm_event_log', 'report_slave_id')


def request_pdu(op):
    """Reference encoding of the request the op should put on the wire."""
    a = op['args']
    fn = op['fn']
    if fn in ('read_coils', 'read_discrete_inputs', 'read_holding_registers', 'read_input_registers'):
        return codec.req_read(FN_FC[fn], a['address'], a['count'])
    if fn == 'write_coil':
        return codec.req_write_coil(a['address'], 0xFF00 if a['value'] else 0)
    if fn == 'write_register':
        return codec.req_write_reg(a['address'], a['value'])
    if fn == 'write_coils':
        return codec.req_write_coils(a['address'], a['values'])
    if fn == 'write_registers':
        return codec.req_write_regs(a['address'], a['values'])
    if fn == 'mask_write_register':
        return codec.req_mask_write(a['address'], a['and_mask'], a['or_mask'])
    if fn == 'readwrite_registers':
        return codec.req_read_write(a['read_address'], a['read_count'], a['write_address'], a['write_registers'])
    if fn == 'diag_query_data':
        return bytes([8, 0, 0]) + bytes.fromhex(a['data'])
    if fn == 'read_exception_status':
        return bytes([7])
    if fn == 'diag':
        return struct.pack('>BHH', 8, a['sub'], a['data'])
    if fn in ('get_comm_event_counter', 'get_comm_event_log', 'report_slave_id'):
        return bytes([FN_FC[fn]])
    if fn == 'read_fifo_queue':
        return struct.pack('>BH', 24, a['address'])
    if fn == 'read_file_record':
        body = b''.join(struct.pack('>BHHH', 6, f, r, n) for (f, r, n) in a['records'])
        return bytes([20, len(body)]) + body
    if fn == 'write_file_record':
        body = b''.join(struct.pack('>BHHH', 6, f, r, len(bytes.fromhex(d)) // 2) + bytes.fromhex(d)
                        for (f, r, d) in a['records'])
        return bytes([21, len(body)]) + body
    if fn == 'read_device_information':
        return bytes([43, 14, a['read_code'], a['object_id']])
    raise ValueError(fn)


EXTENDED = ('diag', 'get_comm_event_counter', 'get_comm_event_log', 'report_slave_id', 'read_file_record',
            'write_file_record', 'read_fifo_queue', 'read_device_information')


def diag_class(sub):
    """The library's request class for a diagnostic sub-function code (as its factory would look it up)."""
    import pymodbus.diag_message as dm
    for n in dm.__all__:
        c = getattr(dm, n)
        if n.endswith('Request') and getattr(c, 'sub_function_code', None) == sub and n != 'DiagnosticStatusRequest':
            return c
    raise ValueError(sub)


def build_extended(op):
    """The request object a user would hand to client.execute() for an op of the extended set."""
    a = op['args']
    fn = op['fn']
    unit = op.get('unit', 1)
    if fn == 'diag':
        cls = diag_class(a['sub'])
        if a['sub'] == 0:
            return cls(a['data'], unit=unit)
        if a['sub'] == 1:
            return cls(toggle=(a['data'] == 0xFF00), unit=unit)
        return cls(data=a['data'], unit=unit)
    if fn == 'get_comm_event_counter':
        from pymodbus.other_message import GetCommEventCounterRequest
        return GetCommEventCounterRequest(unit=unit)
    if fn == 'get_comm_event_log':
        from pymodbus.other_message import GetCommEventLogRequest
        return GetCommEventLogRequest(unit=unit)
    if fn == 'report_slave_id':
        from pymodbus.other_message import ReportSlaveIdRequest
        return ReportSlaveIdRequest(unit=unit)
    if fn == 'read_fifo_queue':
        from pymodbus.file_message import ReadFifoQueueRequest
        return ReadFifoQueueRequest(a['address'], unit=unit)
    if fn == 'read_file_record':
        from pymodbus.file_message import ReadFileRecordRequest, FileRecord
        return ReadFileRecordRequest([FileRecord(file_number=f, record_number=r, record_length=n)
                                      for (f, r, n) in a['records']], unit=unit)
    if fn == 'write_file_record':
        from pymodbus.file_message import WriteFileRecordRequest, FileRecord
        return WriteFileRecordRequest([FileRecord(file_number=f, record_number=r, record_data=bytes.fromhex(d))
                                       for (f, r, d) in a['records']], unit=unit)
    if fn == 'read_device_information':
        from pymodbus.mei_message import ReadDeviceInformationRequest
        return ReadDeviceInformationRequest(read_code=a['read_code'], object_id=a['object_id'], unit=unit)
    raise ValueError(fn)


def reply_pdu(op):
    """The correct reply PDU for the op (normal or exception), from the reference codec."""
    r = op.get('reply') or {}
    fc = request_pdu(op)[0]
    if 'exc' in r:
        return codec.rsp_exception(fc, r['exc'])
    if 'regs' in r:
        return codec.rsp_regs(fc, r['regs'])
    if 'bits' in r:
        return codec.rsp_bits(fc, r['bits'])
    if 'raw' in r:
        return bytes.fromhex(r['raw'])
    pdu = request_pdu(op)
    if fc in (15, 16):
        return pdu[:5]
    return pdu                      # echo (5, 6, 22, 8)


def call_op(client, op):
    """Issue the op through the client's public API."""
    a = dict(op['args'])
    fn = op['fn']
    unit = op.get('unit', 1)
    if fn == 'diag_query_data':
        from pymodbus.diag_message import ReturnQueryDataRequest
        return client.execute(ReturnQueryDataRequest(int(a['data'], 16), unit=unit))
    if fn == 'read_exception_status':
        from pymodbus.other_message import ReadExceptionStatusRequest
        return client.execute(ReadExceptionStatusRequest(unit=unit))
    if fn in EXTENDED:
        return client.execute(build_extended(op))
    if fn in ('read_coils', 'read_discrete_inputs', 'read_holding_registers', 'read_input_registers'):
        return getattr(client, fn)(a['address'], a['count'], unit=unit)
    if fn in ('write_coil', 'write_register'):
        return getattr(client, fn)(a['address'], a['value'], unit=unit)
    if fn in ('write_coils', 'write_registers'):
        return getattr(client, fn)(a['address'], list(a['values']), unit=unit)
    if fn == 'mask_write_register':
        return client.mask_write_register(address=a['address'], and_mask=a['and_mask'], or_mask=a['or_mask'], unit=unit)
    if fn == 'readwrite_registers':
        return client.readwrite_registers(read_address=a['read_address'], read_count=a['read_count'],
                                          write_address=a['write_address'], write_registers=list(a['write_registers']),
                                          unit=unit)
    raise ValueError(fn)


class ClientDecoderProxy(object):
    """Observation only: which objects did the client's decoder produce, from which PDU bytes."""

    def __init__(self, real, k, sink):
        self._real, self._k, self._sink = real, k, sink

    def lookupPduClass(self, fc):
        return self._real.lookupPduClass(fc)

    def register(self, *a, **kw):
        return self._real.register(*a, **kw)

    def decode(self, data):
        data = bytes(data)
        seq = self._k.log('cli-decode', data)
        obj = self._real.decode(data)
        self._sink.append({'seq': seq, 'pdu': data, 'obj': obj, 'task': self._k.current.name if self._k.current else None})
        return obj


class Peer(object):
    """Scripted reference server.  Sees each client write as one unit, parses it
    with the reference codec and reacts as the op's script says."""

    def __init__(self, kernel, scn, framing, send_fn, close_fn, reset_fn):
        self.k = kernel
        self.scn = scn
        self.framing = framing
        self.send = send_fn         # send(delay, bytes)
        self.close = close_fn
        self.reset = reset_fn
        self.ops = {}               # (unit, request pdu) -> [op, attempts]
        for ci, ops in enumerate(scn['callers']):
            for oi, op in enumerate(ops):
                key = (op.get('unit', 1), request_pdu(op))
                self.ops.setdefault(key, []).append({'op': op, 'caller': ci, 'index': oi, 'attempts': 0})
        self.rx = []                # every frame received: (seq, raw, parsed or None)
        self.unparsed = 0
        self.sent_log = []          # (seq when scheduled, link index, nbytes)
        self.current = {}
        self.link = 0

    def on_frame(self, raw):
        seq = self.k.log('peer-rx', raw)
        try:
            unit, tid, pid, pdu = codec.parse_frame(self.framing, raw)
        except codec.Malformed as ex:
            self.rx.append({'seq': seq, 'raw': raw, 'ok': False, 'err': str(ex)})
            self.unparsed += 1
            return
        if self.framing == 'tls':
            unit = None
        ent = None
        for (u, p), lst in self.ops.items():
            if p == pdu and (unit is None or u == unit):
                # the op with this content that a caller is executing right now
                # (the harness tells the peer), else the first not yet completed one
                cur = [e for e in lst if self.current.get(e['caller']) == e['index']]
                ent = cur[0] if cur else next((e for e in lst if not e.get('completed')), lst[-1])
                break
        rec = {'seq': seq, 'raw': raw, 'ok': True, 'unit': unit, 'tid': tid, 'pid': pid, 'pdu': pdu,
               'op': (ent['caller'], ent['index']) if ent else None}
        self.rx.append(rec)
        if ent is None:
            return
        op = ent['op']
        n = ent['attempts']
        ent['attempts'] += 1
        script = op.get('script') or []
        att = script[n] if n < len(script) else {'act': 'reply'}
        rec['act'] = att['act']
        rec['attempt'] = n
        self.k.count('peer_' + att['act'])
        good = codec.frame(self.framing, unit if unit is not None else 0, reply_pdu(op), tid=tid or 0, pid=pid or 0)
        delay = float(att.get('delay', 0.001))
        act = att['act']
        bcast = bool(self.scn['client'].get('kwargs', {}).get('broadcast_enable')) and op.get('unit', 1) == 0
        if self.scn['client'].get('kwargs', {}).get('handle_local_echo'):
            # RS-485 adaptor with local echo: every transmitted byte comes straight back
            self.send(0.0, raw)
            self.k.count('local_echo')
        if bcast:
            return                  # a conformant server never answers a broadcast
        if act == 'reply' or act == 'exception':
            if act == 'exception':
                good = codec.frame(self.framing, unit if unit is not None else 0,
                                   codec.rsp_exception(pdu[0], att.get('code', 2)), tid=tid or 0, pid=pid or 0)
            self._send_cut(delay, good, att.get('cuts'), att.get('cutgap', 0.0))
            ent['completed'] = act == 'reply'
        elif act == 'nothing':
            pass
        elif act == 'partial':
            k = max(1, min(len(good) - 1, int(att.get('k', 1))))
            self.send(delay, good[:k])
        elif act == 'garbage':
            self.send(delay, bytes.fromhex(att['hex']))
        elif act == 'wrong_unit':
            u2 = ((unit or 0) + int(att.get('du', 1))) & 0xFF
            self.send(delay, codec.frame(self.framing, u2, reply_pdu(op), tid=tid or 0, pid=pid or 0))
        elif act == 'wrong_tid':
            self.send(delay, codec.frame(self.framing, unit or 0, reply_pdu(op), tid=((tid or 0) + int(att.get('dt', 1))) & 0xFFFF))
        elif act == 'wrong_fc':
            other = bytes.fromhex(att['hex'])
            self.send(delay, codec.frame(self.framing, unit or 0, other, tid=tid or 0))
        elif act == 'stale_first':
            stale = bytes.fromhex(att['hex'])
            self.send(delay, stale)
            self._send_cut(float(att.get('gap', 0.0)), good, att.get('cuts'), att.get('cutgap', 0.0))
            ent['completed'] = True
        elif act == 'late':
            self.send(delay, good)          # delay is chosen > timeout by the generator
        elif act == 'dup':
            self.send(delay, good)
            self.send(float(att.get('gap', 0.0)), good)
            ent['completed'] = True
        elif act == 'reset':
            self.reset(delay)
        elif act == 'close':
            self.close(delay)
        else:
            raise HarnessError('unknown peer act %r' % act)

    def _send_cut(self, delay, data, cuts, cutgap):
        cuts = sorted(set(c for c in (cuts or []) if 0 < c < len(data)))
        pos = 0
        first = True
        for c in cuts + [len(data)]:
            self.send(delay if first else cutgap, data[pos:c])
            first = False
            pos = c


class StubSSLContext(object):
    def wrap_socket(self, sock, server_side=False, server_hostname=None):
        return sock


class CliResult(object):
    pass


def make_client(scn, k):
    from pymodbus.client.sync import ModbusTcpClient, ModbusUdpClient, ModbusSerialClient, ModbusTlsClient
    from sim.frontends import framer_class
    c = scn['client']
    kw = dict(c.get('kwargs') or {})
    kind, framing = c['kind'], c['framing']
    if kind == 'tcp':
        return ModbusTcpClient('10.0.0.1', 502, framer=framer_class(framing), **kw)
    if kind == 'tls':
        return ModbusTlsClient('10.0.0.1', 802, sslctx=StubSSLContext(), framer=framer_class(framing), **kw)
    if kind == 'udp':
        return ModbusUdpClient('127.0.0.1', 502, framer=framer_class(framing), **kw)
    if kind == 'serial':
        method = {'tcp': 'socket'}.get(framing, framing)
        return ModbusSerialClient(method=method, port='cli0', **kw)
    raise ValueError(kind)


def mount_real_server(k, scn, state):
    """C14: the real pymodbus server on the other end instead of the scripted peer.
    Serial framings: ModbusSerialServer on port 'srv0' (other side of the client's line).
    TLS framing: sync ModbusTcpServer with the TLS framer; each client connect is an accept."""
    from pymodbus.datastore import ModbusSlaveContext, ModbusServerContext, ModbusSequentialDataBlock
    from sim.frontends import framer_class, FakeListenSocket
    rs = scn['real_server']
    n = rs.get('size', 2200)
    ctx = ModbusSlaveContext(di=ModbusSequentialDataBlock(0, [bool((i * 7) % 3) for i in range(n)]),
                             co=ModbusSequentialDataBlock(0, [bool((i * 5) % 4) for i in range(n)]),
                             hr=ModbusSequentialDataBlock(0, [(i * 3 + 1) & 0x7F7F for i in range(n)]),
                             ir=ModbusSequentialDataBlock(0, [(i * 5 + 2) & 0x7F7F for i in range(n)]), zero_mode=True)
    sctx = ModbusServerContext(slaves=ctx, single=True)
    framing = scn['client']['framing']
    if scn['client']['kind'] == 'serial':
        from pymodbus.server.sync import ModbusSerialServer
        srv = ModbusSerialServer(sctx, framer_class(framing), port='srv0', timeout=rs.get('timeout', 0.01))
        task = k.spawn('real-serial-server', srv.serve_forever, daemon=True)
        return {'server': srv, 'task': task}
    from pymodbus.server.sync import ModbusTcpServer
    old = k.registry.get('socket_factory')
    k.registry['socket_factory'] = lambda fam, typ: FakeListenSocket()
    srv = ModbusTcpServer(sctx, framer_class(framing), address=('sim-srv', 802))
    k.registry['socket_factory'] = old
    return {'server': srv, 'task': None}


def run(scn, keep_log=False, real_server=None):
    """scn['real_server'] (optional): mount the real pymodbus server on the other
    end of the link instead of the scripted peer (C14)."""
    real_server = scn.get('real_server')
    seams.install()
    seams.reset_globals()
    k = Kernel(sched=scn.get('sched'), cpu_step=scn.get('cpu_step', 1e-4),
               max_steps=scn.get('max_steps', 20000), max_vtime=scn.get('max_vtime', 900.0), keep_log=keep_log)
    if (scn.get('sched') or {}).get('preempt_lines'):
        k.line_files = seams.line_files()
    seams.set_kernel(k)
    res = CliResult()
    c = scn['client']
    kind, framing = c['kind'], c['framing']
    state = {'connects': 0, 'channels': [], 'peer': None}
    connect_script = list(scn.get('connect_script') or [])
    try:
        peer_box = {}

        def new_stream_link():
            ch = net.Channel(k, 'link%d' % len(state['channels']))
            state['channels'].append(ch)

            link = len(state['channels']) - 1

            def send(delay, data):
                peer_box['peer'].sent_log.append((k.seq, link, len(data)))
                ch.ba.push(delay, bytes(data))

            def close(delay):
                ch.ba.push(delay, net.EOF)

            def reset(delay):
                ch.ba.push(delay, net.RESET)
            peer = peer_box.get('peer')
            if peer is None:
                peer = Peer(k, scn, framing, send, close, reset)
                peer.current = current
                peer_box['peer'] = peer
            else:
                peer.send, peer.close, peer.reset = send, close, reset

            def on_deliver(pipe):
                while pipe.rx:
                    pass_data = pipe.take(len(pipe.rx))
                    # one client write = one delivery (planner-less pipe): one frame.
                    # A server answers on the connection the request came in on.
                    peer.send, peer.close, peer.reset = send, close, reset
                    peer.on_frame(pass_data)
            ch.ab.on_deliver = on_deliver
            return ch

        def tcp_connect(addr):
            i = state['connects']
            state['connects'] += 1
            act = connect_script[i] if i < len(connect_script) else 'ok'
            k.count('connect_' + act)
            if act == 'refuse':
                return ConnectionRefusedError(111, 'Connection refused')
            if real_server is not None:
                ch = net.Channel(k, 'link%d' % len(state['channels']))
                state['channels'].append(ch)
                ssock = net.SimSocket(k, ch, 'b', name='srv-sock%d' % i)
                state['real_server']['server'].process_request(ssock, ('sim-cli', 1000 + i))
                return net.SimSocket(k, ch, 'a', name='cli-sock%d' % i)
            ch = new_stream_link()
            return net.SimSocket(k, ch, 'a', name='cli-link%d' % (len(state['channels']) - 1))

        def socket_factory(fam, typ):
            import socket as rs
            if typ == rs.SOCK_DGRAM:
                dn = state.get('dnet')
                if dn is None:
                    dn = net.DatagramNet(k)
                    state['dnet'] = dn
                    srv_addr = ('127.0.0.1', 502)

                    def send(delay, data):
                        peer_box['peer'].sent_log.append((k.seq, 0, len(data)))
                        k.call_later(delay, lambda: dn.sendto(srv_addr, ('cli', 5000), bytes(data)), 'peer-dgram')

                    def nop(delay):
                        pass
                    peer = Peer(k, scn, framing, send, nop, nop)
                    peer.current = current
                    peer_box['peer'] = peer
                    dn.endpoints[srv_addr] = lambda data, src: peer.on_frame(data)
                state['connects'] += 1
                return net.SimDatagramSocket(k, dn, ('cli', 5000), name='cli-link0')
            # unconnected stream socket (TLS path): channel is made at connect()
            return net.SimSocket(k, None, 'a', name='cli-tls')

        def serial_open(port, timeout):
            import serial
            i = state['connects']
            state['connects'] += 1
            act = connect_script[i] if i < len(connect_script) else 'ok'
            k.count('connect_' + act)
            if port == 'cli0':
                if act == 'refuse':
                    return serial.SerialException('could not open port')
                if real_server is not None:
                    ch = state.get('serial_ch')
                    if ch is None:
                        ch = net.Channel(k, 'line')
                        state['serial_ch'] = ch
                        state['channels'].append(ch)
                else:
                    ch = new_stream_link()
                sp = net.SimSerial(k, ch, 'a', timeout=timeout, name='cli-link%d' % (len(state['channels']) - 1))
                state.setdefault('ports', []).append(sp)
                return sp
            if port == 'srv0':
                ch = state.get('serial_ch')
                if ch is None:
                    ch = net.Channel(k, 'line')
                    state['serial_ch'] = ch
                    state['channels'].append(ch)
                return net.SimSerial(k, ch, 'b', timeout=timeout, name='srv-ser')
            return serial.SerialException('no such port')

        k.registry['tcp_connect'] = tcp_connect
        k.registry['socket_factory'] = socket_factory
        k.registry['serial_open'] = serial_open

        if real_server is not None:
            state['real_server'] = mount_real_server(k, scn, state)

        client = make_client(scn, k)
        if scn.get('tid_start') is not None:
            client.transaction.tid = int(scn['tid_start'])
        decodes = []
        client.framer.decoder = ClientDecoderProxy(client.framer.decoder, k, decodes)
        calls = []
        current = {}

        def caller(ci, ops):
            def body():
                d0 = (scn.get('caller_delay') or [])
                if ci < len(d0) and d0[ci]:
                    seams.CURRENT.sleep(d0[ci])      # this thread issues its first request a little later
                for oi, op in enumerate(ops):
                    rec = {'caller': ci, 'index': oi, 'invoke_seq': k.log('invoke', ci, oi), 't0': k.now,
                           'result': None, 'exc': None}
                    calls.append(rec)
                    current[ci] = oi
                    try:
                        rec['result'] = call_op(client, op)
                    except Exception as ex:
                        rec['exc'] = ex
                    rec['return_seq'] = k.log('return', ci, oi)
                    rec['t1'] = k.now
                    rec['state_after'] = getattr(client, 'state', None)
                    gap = op.get('think', 0.0)
                    if gap:
                        seams.CURRENT.sleep(gap)
            return body
        if scn.get('preconnect'):
            # the application connected once before sharing the client between threads
            pt = k.spawn('preconnect', client.connect)
            k.run(until=lambda: pt.state == DONE)
        tasks = [k.spawn('caller%d' % ci, caller(ci, ops)) for ci, ops in enumerate(scn['callers'])]
        reason = k.run(until=lambda: all(t.state == DONE for t in tasks))
        res.stop_reason = reason
        res.deadlocked = (reason == 'quiescent') and not all(t.state == DONE for t in tasks)
        res.finished = all(t.state == DONE for t in tasks)
        res.task_exc = [(t.name, t.exc) for t in tasks if t.exc is not None]
        res.calls = calls
        res.decodes = decodes
        res.peer = peer_box.get('peer')
        res.channels = state['channels']
        res.dnet = state.get('dnet')
        res.ports = state.get('ports', [])
        res.client = client
        res.connects = state['connects']
        res.real_server = state.get('real_server')
    finally:
        try:
            k.shutdown()
        finally:
            seams.set_kernel(None)
    res.digest = k.digest()
    res.shape = k.shape_digest()
    res.counters = dict(k.counters)
    res.vtime = k.now
    res.steps = k.steps
    res.executed_choices = list(k.executed)
    res.line_events = k.line_counter
    res.io = k.io
    res.scn_callers = scn['callers']
    res.log = k.events if keep_log else None
    return res


def wire_frames(res):
    """[(seq, raw)] every write the client made to its transport, in order."""
    out = []
    if res.dnet is not None:
        for (src, dst, d) in res.dnet.sent:
            if src == ('cli', 5000):
                out.append(d)
        return out
    for ch in res.channels:
        out.extend(ch.ab.written)
    return out
