"""H-SRV: one real server front-end, a recorded datastore, scripted deliveries.

Scenario keys used here (all JSON):
  frontend, framing, single, units {unit-id-string: layout}, opts,
  conns (int), deliveries [{c, hex, gap}], closes [{c, after, how}] (optional),
  peer_closes [{c, at, how: 'eof'|'reset'}] (optional: the peer of that connection goes away at that instant),
  dsfault {unit, op, at} (optional), cpu_step, sched, settle
Everything observable is returned in SrvResult; oracles live in props/.
"""
import random

from sim import seams, frontends
from sim.kernel import Kernel, HarnessError
from ref import device as refdev


class RecordingDecoder(object):
    """Observation-only proxy for the server's decoder: records the PDU bytes the
    framer extracted for every delivery and wraps the decoded request's
    execute() to record execution order and the datastore dump after it."""

    def __init__(self, real, rec):
        self._real = real
        self._rec = rec

    def lookupPduClass(self, fc):
        return self._real.lookupPduClass(fc)

    def register(self, *a, **kw):
        return self._real.register(*a, **kw)

    def decode(self, data):
        rec = self._rec
        k = rec.k
        seq = k.log('decode', bytes(data))
        entry = {'seq': seq, 'pdu': bytes(data), 'ok': False}
        rec.decodes.append(entry)
        req = self._real.decode(data)
        entry['ok'] = req is not None
        if req is not None:
            entry['cls'] = type(req).__name__
            real_execute = req.execute

            def execute(context, _req=req, _real=real_execute, _pdu=bytes(data)):
                e = {'seq': k.log('execute', _pdu), 'pdu': _pdu,
                     'unit_id': getattr(_req, 'unit_id', None),
                     'tid': getattr(_req, 'transaction_id', None),
                     'ctx_unit': rec.ctx_units.get(id(context)), 'raised': None}
                rec.execs.append(e)
                try:
                    rsp = _real(context)
                except BaseException as ex:
                    e['raised'] = type(ex).__name__
                    e['after'] = rec.dump()
                    raise
                e['after'] = rec.dump()
                e['rsp_cls'] = type(rsp).__name__
                e['rsp_fc'] = getattr(rsp, 'function_code', None)
                e['rsp_exc'] = getattr(rsp, 'exception_code', None)
                return rsp
            req.execute = execute
        return req


class Recorder(object):
    def __init__(self, kernel):
        self.k = kernel
        self.decodes = []
        self.execs = []
        self.access = []
        self.ctx_units = {}
        self.units = {}             # unit key -> (slave context, zero_mode)

    def dump(self):
        out = {}
        for u, (ctx, zero) in self.units.items():
            off = 0 if zero else 1
            d = {}
            for t in ('c', 'd', 'h', 'i'):
                blk = ctx.store[t]
                vals = blk.values
                if isinstance(vals, dict):
                    cells = vals.items()
                else:
                    cells = enumerate(vals, blk.address)
                bit = t in ('c', 'd')
                if t in getattr(ctx, '_default_tables', ()):
                    # constructor-default table (65536 zero cells): look only at the datastore addresses
                    # any request of this run has written in ANY table of this unit (so a write that
                    # leaks into another table is seen) and keep the cells that differ from the default
                    dd = {}
                    for a in ctx._touched:
                        i = a - blk.address
                        if 0 <= i < len(vals) and vals[i] and 0 <= a - off <= 0xFFFF:
                            dd[a - off] = bool(vals[i]) if bit else vals[i]
                    d[t] = dd
                else:
                    d[t] = {a - off: (bool(v) if bit else v) for a, v in cells if 0 <= a - off <= 0xFFFF}
            out[u] = d
        return out


def _mk_block(spec, templates=None):
    from pymodbus.datastore import ModbusSequentialDataBlock, ModbusSparseDataBlock
    cells = refdev.block_cells(spec)
    if spec['kind'] == 'seq':
        vals = [cells[spec['start'] + i] for i in range(spec['size'])]
        if templates is not None:
            # the application builds equal blocks from ONE template list object (a common way to set up several
            # units); each block must own its cells all the same
            vals = templates.setdefault((spec['start'], tuple(vals), tuple(type(v) for v in vals[:1])), vals)
        return ModbusSequentialDataBlock(spec['start'], vals)
    return ModbusSparseDataBlock(dict(sorted(cells.items())))


def make_context(scn, rec):
    """Build the real ModbusServerContext (with recording slave contexts) and the
    reference model {unit key: RefUnit} from the scenario's layouts."""
    from pymodbus.datastore import ModbusSlaveContext, ModbusServerContext
    k = rec.k
    fault = scn.get('dsfault')

    class RecordingContext(ModbusSlaveContext):
        _unit = None
        _calls = None

        def _maybe_fail(self, op):
            if fault and str(fault['unit']) == str(self._unit) and fault['op'] == op:
                self._calls[op] = self._calls.get(op, 0) + 1
                if self._calls[op] == fault['at']:
                    k.count('dsfault_fired')
                    k.log('dsfault', op)
                    rec.access.append((k.seq, self._unit, 'FAULT', op, 0, 0))
                    raise RuntimeError('injected datastore failure in %s' % op)

        def validate(self, fx, address, count=1):
            rec.access.append((k.log('ds-validate', fx, address, count), self._unit, 'validate', fx, address, count))
            self._maybe_fail('validate')
            return ModbusSlaveContext.validate(self, fx, address, count)

        def getValues(self, fx, address, count=1):
            rec.access.append((k.log('ds-get', fx, address, count), self._unit, 'get', fx, address, count))
            self._maybe_fail('get')
            return ModbusSlaveContext.getValues(self, fx, address, count)

        def setValues(self, fx, address, values):
            vals = list(values)
            base = address + (0 if self.zero_mode else 1)
            self._touched.update(range(base, base + len(vals)))
            rec.access.append((k.log('ds-set', fx, address, len(vals)), self._unit, 'set', fx, address, vals))
            self._maybe_fail('set')
            return ModbusSlaveContext.setValues(self, fx, address, values)

    model = {}
    slaves = {}
    # the order in which the application put the units into its slaves dict (ascending unless the scenario says otherwise)
    order = [str(u) for u in scn.get('unit_order') or []]
    if sorted(order) != sorted(scn['units']):
        order = sorted(scn['units'], key=lambda s: int(s))
    templates = {}
    for ukey in order:
        layout = scn['units'][ukey]
        share = layout.get('share') or {}
        blocks = {}
        defaults = [t for t in ('c', 'd', 'h', 'i') if layout['tables'][t]['kind'] == 'default']
        for t in ('c', 'd', 'h', 'i'):
            if share.get(t, t) == t and t not in defaults:
                blocks[t] = _mk_block(layout['tables'][t], templates)
        for t in ('c', 'd', 'h', 'i'):
            if t not in defaults:
                blocks.setdefault(t, blocks[share.get(t, t)])
        kwn = {'c': 'co', 'd': 'di', 'h': 'hr', 'i': 'ir'}
        # tables of kind "default" are simply not passed: the constructor's own default is used
        ctx = RecordingContext(zero_mode=bool(layout.get('zero_mode', False)),
                               **{kwn[t]: b for t, b in blocks.items()})
        ctx._default_tables = tuple(defaults)
        ctx._touched = set()
        ctx._unit = ukey
        ctx._calls = {}
        rec.ctx_units[id(ctx)] = ukey
        rec.units[ukey] = (ctx, bool(layout.get('zero_mode', False)))
        slaves[int(ukey)] = ctx
        model[ukey] = refdev.RefUnit(layout)
    if scn.get('single', True):
        only = slaves[sorted(slaves)[0]]
        sctx = ModbusServerContext(slaves=only, single=True)
    else:
        sctx = ModbusServerContext(slaves=slaves, single=False)
    return sctx, model


class SrvResult(object):
    pass


def run(scn, keep_log=False):
    seams.install()
    seams.reset_globals()
    k = Kernel(sched=scn.get('sched'), cpu_step=scn.get('cpu_step', 1e-4),
               max_steps=scn.get('max_steps', 20000), max_vtime=scn.get('max_vtime', 600.0),
               keep_log=keep_log)
    seams.set_kernel(k)
    res = SrvResult()
    rec = Recorder(k)
    fe = None
    try:
        sctx, model = make_context(scn, rec)
        res.initial = rec.dump()
        fe = frontends.make_frontend(scn['frontend'], k, sctx, scn['framing'], scn.get('opts'))
        fe.start()
        if (scn.get('opts') or {}).get('custom_fc'):
            # what StartTcpServer(custom_functions=[...]) and its siblings do with an application-defined function
            from harness import custom
            fe.server.decoder.register(custom.classes()[0])
        # observation proxy on the decoder the handlers will use
        proxy = RecordingDecoder(fe.server.decoder, rec)
        fe.server.decoder = proxy
        if scn['frontend'] == 'tw_udp':
            fe.server.framer.decoder = proxy
        if scn['frontend'] == 'sync_serial':
            # the serial server builds its single handler (and framer) in __init__
            fe.server.handler.framer.decoder = proxy
        if scn.get('listen_only'):
            from pymodbus.device import ModbusControlBlock
            ModbusControlBlock().ListenOnly = True
        nconn = scn.get('conns', 1)
        t0 = k.now
        k.run(until=lambda: k.now >= t0 + 1e-3)   # let listeners come up (asyncio serve_forever)
        open_at = scn.get('open_at') or {}
        for cid in range(nconn):
            if str(cid) not in open_at:
                fe.open(cid)
        t0 = k.now
        k.run(until=lambda: k.now >= t0 + 1e-3)
        t = k.now
        last = t
        inputs = {cid: [] for cid in range(nconn)}

        gone = set()                # connections the peer has closed / reset (a crashed or restarted client)

        def mk(cid, data):
            def ev():
                if cid in gone:
                    return          # the peer is gone: it sends nothing any more
                inputs[cid].append((k.seq, data))
                fe.deliver(cid, data)
            return ev

        def peer_close(pc):
            def ev():
                if pc['c'] not in gone:
                    gone.add(pc['c'])
                    k.count('peer_' + pc.get('how', 'eof'))
                    fe.close(pc['c'], pc.get('how', 'eof'))
            return ev
        for cid_s, when in sorted(open_at.items()):
            k.call_at(t + float(when), (lambda cid=int(cid_s): fe.open(cid)), 'open:c%s' % cid_s)
        for pc in scn.get('peer_closes') or []:
            # at an arbitrary instant of the history (also between the pieces of one frame); scheduled after the
            # opens so that "re-connected, then the server learns that the old connection is gone" is expressible
            k.call_at(t + float(pc['at']), peer_close(pc), 'peer-close:c%d' % pc['c'])
        for d in scn['deliveries']:
            t += float(d.get('gap', 0.0))
            data = bytes.fromhex(d['hex'])
            k.call_at(t, mk(d['c'], data), 'in:c%d' % d['c'])
            last = t
        for c in scn.get('closes') or []:
            k.call_at(last + float(c.get('after', 0.0)),
                      (lambda c=c: fe.close(c['c'], c.get('how', 'eof'))), 'close:c%d' % c['c'])
        settle = float(scn.get('settle', 1.0))
        end = last + settle
        reason = k.run(until=lambda: k.now >= end)
        res.stop_reason = reason
        res.inputs = inputs
        res.outputs = {cid: fe.output(cid) for cid in range(nconn)}
        res.server_closed = {cid: fe.server_closed(cid) for cid in range(nconn)}
        res.stray = fe.stray_output() if hasattr(fe, 'stray_output') else []
        res.final = rec.dump()
        fe.stop()
        res.errors = list(fe.errors)
        res.dropped = dict(fe.dropped)
        res.tw_raised = list(getattr(fe, 'raised', []))
    finally:
        try:
            k.shutdown()
        finally:
            seams.set_kernel(None)
            if fe is not None and hasattr(fe, 'loop') and not fe.loop.is_closed():
                try:
                    fe._finish_loop()
                except Exception:
                    pass
    res.decodes = rec.decodes
    res.execs = rec.execs
    res.access = rec.access
    res.model = model
    res.digest = k.digest()
    res.shape = k.shape_digest()
    res.counters = dict(k.counters)
    res.vtime = k.now
    res.steps = k.steps
    res.executed_choices = list(k.executed)
    res.log = k.events if keep_log else None
    return res
