"""C06 - framing is independent of how the byte stream is chunked."""
import copy

from . import rxcommon as rc
from ref import codec
from harness import rx

ID = 'C06'
TITLE = 'Framing is independent of how the byte stream is chunked'
QUICK_S = 40
THOROUGH_S = 600
RULE = ('streams of 1-5 valid frames (corpus of every message class plus random data-access messages, built by the reference '
        'codec) on the TCP/RTU/ASCII/binary framers in both decoder directions, delivered under a generated arrival schedule '
        '(any cut set, empty reads, several frames per read); systematic part: every single cut position and byte-at-a-time '
        'delivery of each corpus frame, every two-frame stream whole and with every single cut, three frames in one read. '
        'Oracle: delivery list (PDU bytes handed to the decoder, class, unit, tid, pid) equals that of one-frame-per-read '
        'delivery; no exception while a frame is merely incomplete. Non-trivial = the schedule differs from one frame per '
        'read; distinct = distinct (stream, schedule) event log')
ASSUMPTIONS = ['if the one-frame-per-read baseline itself does not deliver every frame the run is inconclusive for C06 (a C03-type fault, not claimed)',
               'frames are built by ref/codec.py']
STUBS = rc.STUBS


def build(scn):
    frames = [codec.frame(scn['framing'], f['u'], bytes.fromhex(f['pdu']), tid=f['tid']) for f in scn['frames']]
    return frames


def mk(framing, decoder, frames, cuts, empties=(), units=None, single=True):
    return {'property': ID, 'harness': 'rx', 'framing': framing, 'decoder': decoder, 'frames': frames,
            'cuts': sorted(set(cuts)), 'empties': sorted(set(empties)), 'units': units, 'single': single}


def generate(rng, tier, index):
    framing = rng.choice(rc.FRAMINGS)
    decoder = rng.choice(['server', 'client'])
    n = rng.choice([1, 1, 2, 2, 3, 4, 5])
    pdus = rc.gen_pdus(rng, decoder, n, framing)
    frames = []
    units_pool = rng.choice([[1], [1, 2, 3], [0, 17], [255]])
    for p in pdus:
        u = rng.choice(units_pool)
        tid = rng.choice([0, 1, 2, 0xFFFF, rng.randrange(65536)])
        if framing == 'binary' and rc.has_delim(codec.frame('binary', u, p)[1:-1]) and rng.random() < 0.93:
            continue
        frames.append({'u': u, 'tid': tid, 'pdu': p.hex()})
    if not frames:
        frames.append({'u': 1, 'tid': 1, 'pdu': codec.req_read(3, 0, 1).hex() if decoder == 'server' else codec.rsp_regs(3, [1]).hex()})
    raw = [codec.frame(framing, f['u'], bytes.fromhex(f['pdu']), tid=f['tid']) for f in frames]
    total = sum(len(x) for x in raw)
    bounds = []
    pos = 0
    for x in raw:
        pos += len(x)
        bounds.append(pos)
    style = rng.choice(['one_cut', 'few_cuts', 'bytewise', 'every_n', 'coalesce_all', 'coalesce_some', 'header_cut', 'mixed'])
    cuts = set(bounds[:-1])
    if style == 'one_cut':
        cuts.add(rng.randrange(1, total) if total > 1 else 1)
    elif style == 'few_cuts':
        for _ in range(rng.randint(2, 5)):
            cuts.add(rng.randrange(1, max(2, total)))
    elif style == 'bytewise':
        cuts = set(range(1, total))
    elif style == 'every_n':
        nn = rng.choice([2, 3, 5, 8, 13, 64])
        cuts = set(range(nn, total, nn))
    elif style == 'coalesce_all':
        cuts = set()
    elif style == 'coalesce_some':
        cuts = set(b for b in bounds[:-1] if rng.random() < 0.5)
    elif style == 'header_cut':
        fi = rng.randrange(len(raw))
        start = bounds[fi - 1] if fi else 0
        cuts.add(start + rng.randint(1, max(1, min(rc.HEADER[framing], len(raw[fi]) - 1))))
    else:
        cuts = set(b for b in bounds[:-1] if rng.random() < 0.6)
        for _ in range(rng.randint(1, 4)):
            cuts.add(rng.randrange(1, max(2, total)))
    cuts = sorted(c for c in cuts if 0 < c < total)
    empties = []
    if rng.random() < 0.25:
        empties = sorted(set(rng.randrange(0, len(cuts) + 2) for _ in range(rng.randint(1, 3))))
    mode = rng.random()
    if mode < 0.6:
        units, single = None, True
    elif mode < 0.8:
        units, single = sorted(set(f['u'] for f in frames)), False
    else:
        units, single = units_pool[:1], False     # some frames may be for foreign units
    return mk(framing, decoder, frames, cuts, empties, units, single)


def systematic(tier):
    unit, tid = 17, 0x1234
    for framing in rc.FRAMINGS:
        for decoder in ('server', 'client'):
            pdus = [p for p in rc.corpus(decoder) if not (framing == 'ascii' and len(p) > 252)]
            if framing == 'binary':
                pdus = [p for p in pdus if not rc.has_delim(codec.frame('binary', unit, p)[1:-1])]
            big = [p for p in pdus if len(p) > 60]
            small = [p for p in pdus if len(p) <= 60]
            if tier == 'quick':
                small = small[::2]
                big = big[:2]
            for p in small + big:
                fr = {'u': unit, 'tid': tid, 'pdu': p.hex()}
                n = len(codec.frame(framing, unit, p, tid=tid))
                step = 1 if n <= 60 else max(1, n // 25)
                for c in range(1, n, step):
                    yield mk(framing, decoder, [fr], [c])
                if n <= 60 or tier != 'quick':
                    yield mk(framing, decoder, [fr], list(range(1, n)))
            # two-frame streams: whole, and with every single cut
            pairs = small[:6] if tier == 'quick' else small[:14]
            for i, a in enumerate(pairs):
                for b in pairs[i:i + 3]:
                    f2 = [{'u': unit, 'tid': tid, 'pdu': a.hex()}, {'u': unit, 'tid': (tid + 1) & 0xFFFF, 'pdu': b.hex()}]
                    la = len(codec.frame(framing, unit, a, tid=tid))
                    lb = len(codec.frame(framing, unit, b, tid=tid))
                    yield mk(framing, decoder, f2, [])
                    for c in range(1, la + lb):
                        if c != la:
                            yield mk(framing, decoder, f2, [c])
            # three frames in one read
            tri = small[:5] if tier == 'quick' else small[:12]
            for i in range(len(tri) - 2):
                f3 = [{'u': unit, 'tid': (tid + j) & 0xFFFF, 'pdu': tri[i + j].hex()} for j in range(3)]
                yield mk(framing, decoder, f3, [])


def to_rx(scn, chunks):
    return {'framing': scn['framing'], 'decoder': scn['decoder'], 'chunks': [c.hex() for c in chunks],
            'units': scn.get('units'), 'single': scn.get('single', True), 'on_exception': 'reset'}


def execute(scn):
    frames = build(scn)
    stream = b''.join(frames)
    base = rx.run(to_rx(scn, frames + [b'']))
    chunks = rc.chunks_from_cuts(stream, scn['cuts'])
    for e in sorted(scn.get('empties') or [], reverse=True):
        chunks.insert(min(e, len(chunks)), b'')
    chunks.append(b'')              # one trailing empty read
    res = rx.run(to_rx(scn, chunks))
    rel = rc.relation(frames, scn['cuts'])
    out = {'violations': [], 'inconclusive': False, 'nontrivial': rel != 'aligned' or bool(scn.get('empties')),
           'digest': res.digest, 'shape': res.digest, 'vtime': 0.0, 'steps': len(chunks),
           'faults': {}, 'probes': {}, 'cell': '%s/%s/%s' % (scn['framing'], scn['decoder'], rel)}
    # expected deliveries of the baseline: every frame the unit filter admits
    units, single = scn.get('units'), scn.get('single', True)
    admitted = [f for f in scn['frames'] if units is None or single or f['u'] in units or 0 in units or 255 in units]
    if len(base.delivered) != len(admitted) or base.exceptions:
        out['inconclusive'] = True
        out['probes']['baseline_failed'] = 1
        return out
    sig_base = {'property': ID, 'framing': scn['framing'], 'decoder': scn['decoder'], 'relation': rel,
                'header_cut': rc.cut_in_header(scn['framing'], frames, scn['cuts']),
                'foreign_units': len(admitted) != len(scn['frames']),
                'empties': bool(scn.get('empties'))}
    if scn['framing'] == 'binary' and any(rc.has_delim(f[1:-1]) for f in frames):
        sig_base['binary_delim'] = True
    for ex in res.exceptions:
        sig = dict(sig_base, **{'class': 'exception-escaped', 'exc': ex['type']})
        out['violations'].append({'sig': sig, 'msg': '%s escaped processIncomingPacket at chunk %d of %d (%s)'
                                  % (ex['type'], ex['chunk'], len(chunks), ex['text'])})
    want, got = rx.view(base.delivered), rx.view(res.delivered)
    if want != got:
        if len(got) < len(want):
            cls = 'frames-lost'
        elif len(got) > len(want):
            cls = 'frames-extra'
        else:
            cls = 'frames-differ'
        sig = dict(sig_base, **{'class': cls})
        out['violations'].append({'sig': sig, 'msg': 'chunked delivery gave %d message(s), one-frame-per-read gives %d; cuts=%s of %d bytes, frames=%s'
                                  % (len(got), len(want), scn['cuts'][:8], len(stream), [len(f) for f in frames])})
    out['probes']['multi_frame_reads'] = 1 if rel in ('whole-frames-coalesced', 'split-and-coalesced') else 0
    out['probes']['split_frames'] = 1 if rel in ('split-only', 'split-and-coalesced') else 0
    out['probes']['header_cuts'] = 1 if sig_base['header_cut'] else 0
    return out


def shrink_steps(scn):
    if len(scn['frames']) > 1:
        # dropping a frame shifts cut offsets: recompute cuts relative to the new stream
        frames = build(scn)
        for i in range(len(scn['frames'])):
            s = copy.deepcopy(scn)
            start = sum(len(f) for f in frames[:i])
            ln = len(frames[i])
            del s['frames'][i]
            nc = []
            for c in scn['cuts']:
                if c <= start:
                    nc.append(c)
                elif c >= start + ln:
                    nc.append(c - ln)
            s['cuts'] = sorted(set(nc))
            yield s
    if scn.get('empties'):
        s = copy.deepcopy(scn)
        s['empties'] = []
        yield s
    for i in range(len(scn['cuts'])):
        s = copy.deepcopy(scn)
        del s['cuts'][i]
        yield s
    if scn.get('units') is not None:
        s = copy.deepcopy(scn)
        s['units'], s['single'] = None, True
        yield s
    for i, f in enumerate(scn['frames']):
        if f['tid'] != 1:
            s = copy.deepcopy(scn)
            s['frames'][i]['tid'] = 1
            yield s
