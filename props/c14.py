"""C14 - predicted reply length equals the length the server really sends."""
from . import clicommon as cc
from harness import cli
from ref import codec

ID = 'C14'
TITLE = 'Predicted reply length equals the length the server really sends'
QUICK_S = 45
THOROUGH_S = 600
RULE = ('real serial client (rtu/ascii/binary) <-> the REAL ModbusSerialServer over one simulated line, and real TLS-framing '
        'client <-> real sync TCP server with the TLS framer; fault-free; every request class that predicts its reply size '
        '(FC 1-6, 15, 16, 23 and FC 8 with every answered diagnostic sub-function incl. 21 get/clear statistics), and on the '
        'serial framings also the request classes that do not predict (FC 0B, 0C, 11, 14, 15, 18, 2B/0E: sized from the '
        'reply header on RTU, read-what-arrived elsewhere), also as the first request after an unanswered one (force listen only) '
        'to the same unit; systematic part: bit quantities 1..2000 and register quantities 1..125 (quick: all residues '
        'mod 8 around every boundary plus a stride; thorough: every quantity) plus address classes that produce exception '
        'replies. Oracle on the transport log: the byte counts the client reads from its port sum to exactly the frame the '
        'server wrote, no read returns short (= waited for bytes that never came), the transaction ends before the timeout, '
        'nothing is left unread; and get_response_pdu_size() == PDU length of the reply on the wire. Non-trivial = a reply '
        'frame was written by the server; distinct = (framing, function, quantity, normal/exception)')
ASSUMPTIONS = ['fault-free line; server read window 10 ms, client timeout 1 s',
               'the reply PDU length on the wire is taken from the reference parser, not from pymodbus']
STUBS = dict(cc.STUBS, real=cc.STUBS['real'] + ['pymodbus.server.sync ModbusSerialServer / ModbusTcpServer + handlers (the server on the other end is real here)'])

FRAMINGS = [('serial', 'rtu'), ('serial', 'ascii'), ('serial', 'binary'), ('tls', 'tls')]


def predict(op):
    """The request object the mixin would build, asked for its prediction."""
    from pymodbus import bit_read_message as br, bit_write_message as bw, register_read_message as rr, register_write_message as rw
    from pymodbus.diag_message import ReturnQueryDataRequest
    a = op['args']
    fn = op['fn']
    if fn == 'read_coils':
        rq = br.ReadCoilsRequest(a['address'], a['count'])
    elif fn == 'read_discrete_inputs':
        rq = br.ReadDiscreteInputsRequest(a['address'], a['count'])
    elif fn == 'read_holding_registers':
        rq = rr.ReadHoldingRegistersRequest(a['address'], a['count'])
    elif fn == 'read_input_registers':
        rq = rr.ReadInputRegistersRequest(a['address'], a['count'])
    elif fn == 'write_coil':
        rq = bw.WriteSingleCoilRequest(a['address'], a['value'])
    elif fn == 'write_register':
        rq = rw.WriteSingleRegisterRequest(a['address'], a['value'])
    elif fn == 'write_coils':
        rq = bw.WriteMultipleCoilsRequest(a['address'], list(a['values']))
    elif fn == 'write_registers':
        rq = rw.WriteMultipleRegistersRequest(a['address'], list(a['values']))
    elif fn == 'readwrite_registers':
        rq = rr.ReadWriteMultipleRegistersRequest(read_address=a['read_address'], read_count=a['read_count'],
                                                  write_address=a['write_address'], write_registers=list(a['write_registers']))
    elif fn == 'diag_query_data':
        rq = ReturnQueryDataRequest(int(a['data'], 16))
    elif fn in cli.EXTENDED:
        rq = cli.build_extended(op)     # diagnostic sub-functions predict; the other extended requests do not
    else:
        return None
    return rq.get_response_pdu_size() if hasattr(rq, 'get_response_pdu_size') else None


def mk(kind, framing, ops):
    return {'property': ID, 'harness': 'cli', 'client': {'kind': kind, 'framing': framing,
                                                         'kwargs': {'timeout': 1.0, 'retries': 0}},
            'callers': [ops], 'cpu_step': 1e-5, 'sched': {'tail_seed': 1},
            'real_server': {'timeout': 0.01, 'size': 2200}}


def op_for(fn, qty, addr=0, bad_addr=False):
    a = 60000 if bad_addr else addr
    if fn in ('read_coils', 'read_discrete_inputs', 'read_holding_registers', 'read_input_registers'):
        return {'fn': fn, 'args': {'address': a, 'count': qty}, 'unit': 1, 'reply': {}}
    if fn == 'write_coil':
        return {'fn': fn, 'args': {'address': a, 'value': bool(qty & 1)}, 'unit': 1, 'reply': {}}
    if fn == 'write_register':
        return {'fn': fn, 'args': {'address': a, 'value': 0x0102 + qty}, 'unit': 1, 'reply': {}}
    if fn == 'write_coils':
        return {'fn': fn, 'args': {'address': a, 'values': [bool((i * 3) % 5 == 0) for i in range(qty)]}, 'unit': 1, 'reply': {}}
    if fn == 'write_registers':
        return {'fn': fn, 'args': {'address': a, 'values': [(0x0101 + i) & 0x7F7F for i in range(qty)]}, 'unit': 1, 'reply': {}}
    if fn == 'readwrite_registers':
        return {'fn': fn, 'args': {'read_address': a, 'read_count': qty, 'write_address': 5,
                                   'write_registers': [0x0203, 0x0405]}, 'unit': 1, 'reply': {}}
    if fn == 'diag_query_data':
        return {'fn': fn, 'args': {'data': '%04x' % (0x0102 + qty)}, 'unit': 1, 'reply': {}}
    if fn == 'diag':
        sub, data = DIAGS[qty - 1]
        return {'fn': fn, 'args': {'sub': sub, 'data': data}, 'unit': 1, 'reply': {}}
    if fn in ('get_comm_event_counter', 'get_comm_event_log', 'report_slave_id'):
        return {'fn': fn, 'args': {}, 'unit': 1, 'reply': {}}
    if fn == 'read_fifo_queue':
        return {'fn': fn, 'args': {'address': a}, 'unit': 1, 'reply': {}}
    if fn == 'read_file_record':
        return {'fn': fn, 'args': {'records': [[1 + i, 2 + i, 1 + (qty + i) % 3] for i in range(qty)]}, 'unit': 1, 'reply': {}}
    if fn == 'write_file_record':
        return {'fn': fn, 'args': {'records': [[1 + i, 2 + i, ('%04x' % (0x0102 + i)) * (1 + (qty + i) % 3)] for i in range(qty)]},
                'unit': 1, 'reply': {}}
    if fn == 'read_device_information':
        code, oid = DEVINFO[qty - 1]
        return {'fn': fn, 'args': {'read_code': code, 'object_id': oid}, 'unit': 1, 'reply': {}}
    raise ValueError(fn)


# diagnostic sub-functions that are answered (4, force listen only, is never answered); 21 = get (3) / clear (4) statistics
DIAGS = [(1, 0x0000), (1, 0xFF00), (2, 0), (3, 0x0A00), (10, 0), (11, 0), (12, 0), (13, 0), (14, 0), (15, 0), (16, 0), (17, 0),
         (18, 0), (20, 0), (21, 3), (21, 4)]
DEVINFO = [(1, 0), (2, 0), (3, 0), (4, 0), (4, 1), (4, 2), (1, 1), (2, 3)]


LIMITS = {'read_coils': 2000, 'read_discrete_inputs': 2000, 'read_holding_registers': 125, 'read_input_registers': 125,
          'write_coils': 1968, 'write_registers': 123, 'readwrite_registers': 125, 'write_coil': 1, 'write_register': 1,
          'diag_query_data': 1,
          # "quantity" = index into DIAGS / DEVINFO, or number of file records
          'diag': len(DIAGS), 'get_comm_event_counter': 1, 'get_comm_event_log': 1, 'report_slave_id': 1,
          'read_fifo_queue': 1, 'read_file_record': 3, 'write_file_record': 3, 'read_device_information': len(DEVINFO)}
NO_PREDICTION = ('get_comm_event_counter', 'get_comm_event_log', 'report_slave_id', 'read_fifo_queue',
                 'read_file_record', 'write_file_record', 'read_device_information')
NO_BAD_ADDR = ('diag', 'get_comm_event_counter', 'get_comm_event_log', 'report_slave_id', 'read_fifo_queue',
               'read_file_record', 'write_file_record', 'read_device_information')


def quantities(fn, tier):
    lim = LIMITS[fn]
    if lim == 1:
        return [1]
    if tier != 'quick':
        return list(range(1, lim + 1))
    qs = set(range(1, 18)) | set(range(lim - 9, lim + 1)) | set(range(1, lim + 1, 37))
    for b in (8, 16, 64, 128, 248, 256, 1000, 1024):
        qs |= {b - 1, b, b + 1}
    return sorted(q for q in qs if 1 <= q <= lim)


def silent_op():
    """Force listen only (FC 08/04): by definition never answered - the next request to that unit finds the
    client in its "this unit did not answer last time" read mode."""
    return {'fn': 'diag', 'args': {'sub': 4, 'data': 0}, 'unit': 1, 'reply': {}, 'silent': True}


def systematic(tier):
    for kind, framing in FRAMINGS:
        if kind == 'serial':
            # the request right after an unanswered one, for every request class
            for fn in LIMITS:
                yield mk(kind, framing, [silent_op(), op_for(fn, min(3, LIMITS[fn]))])
                if fn not in NO_BAD_ADDR:
                    yield mk(kind, framing, [silent_op(), op_for(fn, min(3, LIMITS[fn]), bad_addr=True)])
        for fn in LIMITS:
            if framing == 'tls' and fn in NO_PREDICTION:
                continue        # no prediction, no frame extent on this framing: cannot be received at all (C08: KF-C08-TLS-REPLY)
            for q in quantities(fn, tier):
                if framing == 'ascii' and fn in ('write_registers',) and q > 123:
                    continue
                yield mk(kind, framing, [op_for(fn, q)])
            if fn not in NO_BAD_ADDR:
                yield mk(kind, framing, [op_for(fn, min(3, LIMITS[fn]), bad_addr=True)])


def generate(rng, tier, index):
    kind, framing = rng.choice(FRAMINGS)
    ops = []
    for _ in range(rng.randint(1, 3)):
        fn = rng.choice([f for f in LIMITS if not (framing == 'tls' and f in NO_PREDICTION)])
        q = rng.randint(1, LIMITS[fn])
        ops.append(op_for(fn, q, addr=rng.choice([0, 1, 7, 100]) if LIMITS[fn] + 100 < 2200 else 0,
                          bad_addr=rng.random() < 0.2 and fn not in NO_BAD_ADDR))
    if kind == 'serial' and rng.random() < 0.15:
        ops.insert(rng.randrange(len(ops)), silent_op())
    return mk(kind, framing, ops)


def execute(scn):
    res = cli.run(scn)
    out = cc.base_outcome(scn, res)
    c = scn['client']
    kind, framing = c['kind'], c['framing']
    timeout = c['kwargs']['timeout']
    ops = scn['callers'][0]
    sig0 = {'property': ID, 'framing': framing}
    if framing == 'binary' and any(cc.frame_has_delim('binary', op.get('unit', 1), cli.request_pdu(op)) for op in ops):
        sig0['binary_delim'] = True

    def add(cls, msg, **kv):
        out['violations'].append({'sig': dict(sig0, **dict({'class': cls}, **kv)), 'msg': msg})
    io = [x for x in res.io]
    nontrivial = False
    for call in res.calls:
        op = ops[call['index']]
        fc = cli.request_pdu(op)[0]
        if 'return_seq' not in call:
            add('hang', 'call %d never returned' % call['index'], fn=label(op))
            continue
        lo, hi = call['invoke_seq'], call['return_seq']
        srv_tx = b''.join(d for (seq, task, k_, name, d) in io if k_ == 'send' and name.startswith('srv') and lo < seq < hi)
        cli_rx = [(seq, d) for (seq, task, k_, name, d) in io if k_ == 'recv' and name.startswith('cli') and lo < seq < hi]
        if not srv_tx:
            if not op.get('silent'):
                out['inconclusive'] = True
            continue
        nontrivial = True
        try:
            unit, tid, pid, pdu = codec.parse_frame(framing, srv_tx)
        except codec.Malformed as ex:
            add('server-frame-unparseable', 'server wrote %s: %s' % (srv_tx.hex()[:60], ex), fn=label(op))
            continue
        is_exc = bool(pdu[0] & 0x80)
        rtype = 'exception' if is_exc else 'normal'
        if framing == 'binary' and (0x7B in srv_tx[1:-1] or 0x7D in srv_tx[1:-1]):
            sig0['binary_delim'] = True     # sticky: a mis-sized reply leaves bytes behind for the next call
        got = b''.join(d for (_, d) in cli_rx)
        dur = call['t1'] - call['t0']
        # prediction vs PDU on the wire (normal replies)
        pred = predict(op)
        if pred is not None and not is_exc and pred != len(pdu):
            add('prediction-wrong', '%s qty=%s: get_response_pdu_size()=%d but the server replied a %d-byte PDU'
                % (op['fn'], qty_of(op), pred, len(pdu)), fn=label(op), reply=rtype)
        # the client reads exactly the reply frame
        short_reads = []
        if kind == 'serial' and res.ports:
            for (req, ret, t0, t1) in res.ports[-1].reads:
                if call['t0'] <= t0 <= call['t1'] and ret < req:
                    short_reads.append((req, ret))
        if got != srv_tx:
            if len(got) < len(srv_tx):
                add('stopped-short', '%s qty=%s (%s reply): client read %d of the %d bytes the server wrote'
                    % (op['fn'], qty_of(op), rtype, len(got), len(srv_tx)), fn=label(op), reply=rtype)
            else:
                add('read-more-than-sent', '%s: client read %d bytes, server wrote %d' % (op['fn'], len(got), len(srv_tx)),
                    fn=label(op), reply=rtype)
        elif short_reads or dur >= timeout:
            add('waited-for-bytes-that-never-come', '%s qty=%s (%s reply): transaction took %.3f virtual s (timeout %.1f); short reads %s'
                % (op['fn'], qty_of(op), rtype, dur, timeout, short_reads[:3]), fn=label(op), reply=rtype)
        r = call['result']
        if call['exc'] is not None:
            add('raised', '%s raised %s' % (op['fn'], type(call['exc']).__name__), fn=label(op), exc=type(call['exc']).__name__)
        elif not is_exc and (r is None or getattr(r, 'function_code', None) != fc):
            add('reply-not-returned', '%s qty=%s: server replied normally but the client returned %s'
                % (op['fn'], qty_of(op), type(r).__name__), fn=label(op), reply=rtype)
        elif is_exc and getattr(r, 'function_code', None) != (fc | 0x80):
            add('reply-not-returned', '%s: server replied exception %s but the client returned %s'
                % (op['fn'], pdu.hex(), type(r).__name__), fn=label(op), reply=rtype)
    out['nontrivial'] = nontrivial
    op0 = ops[0]
    out['shape'] = '%s/%s/%s/%s' % (framing, op0['fn'], qty_of(op0), len(ops))
    out['cell'] = '%s/%s' % (framing, op0['fn'])
    return out


def label(op):
    if op['fn'] == 'diag':
        return 'diag/%d' % op['args']['sub'] + ('/%d' % op['args']['data'] if op['args']['sub'] == 21 else '')
    return op['fn']


def qty_of(op):
    a = op['args']
    if op['fn'] == 'diag':
        return '%d/%d' % (a['sub'], a['data'])
    if 'records' in a:
        return len(a['records'])
    if 'read_code' in a:
        return '%d/%d' % (a['read_code'], a['object_id'])
    for k in ('count', 'read_count'):
        if k in a:
            return a[k]
    if 'values' in a:
        return len(a['values'])
    return 1


shrink_steps = cc.shrink_steps
