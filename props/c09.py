"""C09 - server sends exactly one matching response per accepted request."""
from . import srvcommon as sc

ID = 'C09'
TITLE = 'Server sends exactly one matching response per accepted request'
QUICK_S = 40
THOROUGH_S = 600
RULE = ('seeded scenarios on H-SRV: front-end x framing x single/multi x flags x 1-3 connections x <=8 requests each, '
        'one frame per read or pipelined; data-access requests plus the other services (diagnostic sub-functions incl. force listen '
        'only, file records, FIFO, device identification, event counters) and an application-defined function code that 10 % of the '
        'servers have registered (echo) and the others must refuse with exception 01; in 15 % of the multi-connection runs the peer '
        'of one connection vanishes (close or reset) at an arbitrary instant, also mid-frame, while the others carry on; a run is non-trivial when >=1 request was executed; distinct = distinct '
        '(actor, event-kind) sequence of the kernel log + front-end + framing')
ASSUMPTIONS = ['reliable ordered byte streams / loss-free datagrams (fault-free network: C09 is about the response relation, not about framing faults)',
               'reference codec ref/codec.py parses the server output (spec-derived, shares no code with pymodbus)',
               'Twisted reactor error contract as documented (exception out of dataReceived drops that connection only)']
STUBS = sc.STUBS
CLASSES = ('response-missing', 'response-extra', 'response-unexpected', 'response-stray', 'output-garbled',
           'pid-nonzero', 'absent-unit-answered', 'exec-unsolicited')

PROFILE = {'invalid_rate': 0.15, 'opaque_rate': 0.1, 'unknown_unit_rate': 0.2, 'multi_rate': 0.45,
           'broadcast_rate': 0.25, 'max_conns': 3, 'max_reqs': 8, 'pipeline_rate': 0.25, 'cut_rate': 0.2,
           'listen_only': True, 'custom_rate': 0.1, 'peer_close_rate': 0.15,
           'dgram_dup_rate': 0.08, 'socket_timeout_rate': 0.3}


def generate(rng, tier, index):
    scn = sc.gen_scenario(rng, sc.deepen(rng, PROFILE, tier))
    scn['property'] = ID
    return scn


def classify(scn, cls, detail, res=None):
    sig = {'property': ID, 'frontend': scn['frontend'], 'framing': scn['framing'], 'class': cls,
           'mode': 'single' if scn.get('single', True) else 'multi'}
    for k in ('fc', 'tag', 'stage', 'dropped', 'where', 'exc'):
        if k in detail:
            sig[k] = detail[k]
    if sc.binary_delim(scn, res):
        sig['binary_delim'] = True
    if sc.listen_only(scn, res):
        sig['listen_only'] = True
    sig['pipelined'] = any(r.get('join') for reqs in scn['conns'] for r in reqs)
    return sig


def execute(scn):
    res = sc.execute_srv(scn)
    out = sc.base_outcome(scn, res)
    an = sc.Analysis(scn, res)
    for cls, detail, msg in an.v + sc.harness_violations(scn, res):
        if cls in CLASSES or cls == 'escaped':
            out['violations'].append({'sig': classify(scn, cls, detail, res), 'msg': msg})
    out['probes']['requests_pipelined'] = sum(1 for reqs in scn['conns'] for r in reqs if r.get('join'))
    out['probes']['absent_unit_requests'] = sum(1 for reqs in scn['conns'] for r in reqs
                                                if not scn.get('single', True) and str(r['u']) not in scn['units'])
    out['probes']['peer_closed_connections'] = len(scn.get('peer_closes') or [])
    out['probes']['broadcast_requests'] = sum(1 for reqs in scn['conns'] for r in reqs if r.get('tag') == 'broadcast')
    return out


shrink_steps = sc.shrink_steps
debug = sc.debug
