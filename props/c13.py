"""C13 - client transactions end in bounded time with a result and recover."""
import itertools

from . import clicommon as cc
from harness import cli
from ref import codec

ID = 'C13'
TITLE = 'Client transactions end in bounded time with a result and recover'
QUICK_S = 45
THOROUGH_S = 600
RULE = ('one caller, one real synchronous client (TCP, UDP, serial rtu/ascii/binary, framer-over-TCP); per transmission '
        'attempt the scripted peer does one of {reply, exception, nothing, k of n bytes, garbage, checksum-valid frame with a PDU cut short, wrong unit, wrong tid, stale '
        'frame first, late reply after the timeout, duplicate, reset, close, or the correct reply slowly (late start, TCP: 2-5 '
        'segments spread over <= 0.85 x timeout)}; retries 0-3 x retry_on_empty x '
        'retry_on_invalid x backoff; systematic part: every script of length <= 2 over the alphabet for every client kind; '
        'seeded part: scripts up to length 5 over 1-3 faulty transactions; every run ends with a healthy follow-up '
        'transaction. Oracles: the call returns (no exception except failure to connect, no simulated deadlock, step cap '
        'not hit, virtual duration <= (1+retries)(4 timeout + 1 s) + sum(backoff) + 1 s); the request frame is on the wire '
        '<= 1+retries times; retry_on_empty / retry_on_invalid deliver a valid reply that arrives within the retry budget; '
        'a correct reply that is complete within the timeout is returned; the follow-up returns its own correct reply. Non-trivial = >=1 non-reply action fired; distinct = kernel '
        'event-kind sequence + client kind + framing')
ASSUMPTIONS = ['connection refusal may raise ConnectionException (excepted by the statement)',
               'the duration bound is deliberately generous: it separates slow from never',
               'no timing or identity is demanded while faults still flow; recovery is judged on the transaction after the script ended']
STUBS = cc.STUBS

ALPHABET = ['reply', 'exception', 'nothing', 'partial', 'garbage', 'wrong_unit', 'wrong_tid', 'stale_first', 'late',
            'dup', 'reset', 'close', 'undecodable']
KINDS = [('tcp', 'tcp'), ('udp', 'tcp'), ('serial', 'rtu'), ('serial', 'ascii'), ('serial', 'binary'), ('tcp', 'rtu')]


def attempt(act, rng, framing, op, timeout, gen, kind=None):
    good = codec.frame(framing, op['unit'], cli.reply_pdu(op), tid=1)
    a = {'act': act}
    if act == 'exception':
        a['code'] = 2 if rng is None else rng.choice([1, 2, 3, 4, 6])
    elif act == 'partial':
        a['k'] = 1 if rng is None else rng.randint(1, max(1, len(good) - 1))
    elif act == 'garbage':
        n = 3 if rng is None else rng.choice([1, 2, 5, 9, 20])
        a['hex'] = bytes(((i * 37 + 11) & 0xFF) if rng is None else rng.randrange(256) for i in range(n)).hex()
    elif act == 'undecodable':
        # a frame for this unit with a VALID checksum whose PDU is cut short inside its own fields
        # (a byte count that promises more than follows, an echo without its value, a bare function code)
        fc = cli.request_pdu(op)[0]
        pool = [bytes([fc, 6, 0]), bytes([fc, 0]), bytes([fc])]
        bad = pool[0] if rng is None else rng.choice(pool)
        a['act'] = 'garbage'
        a['hex'] = codec.frame(framing, op['unit'], bad, tid=1).hex()
    elif act == 'stale_first':
        other = gen.op(fn='read_holding_registers', unit=op['unit'], exc_rate=0.0, maxn=3)
        a['hex'] = codec.frame(framing, op['unit'], cli.reply_pdu(other), tid=9).hex()
        a['gap'] = 0.0
    elif act == 'late':
        a['delay'] = timeout * 1.5
    elif act == 'slow':
        # the correct reply, slowly: late start and (stream transports) several segments, complete after at
        # most 0.85 x timeout - short reads, but no fault
        d0, gap = (0.05, 0.25) if rng is None else rng.choice([(0.1, 0.05), (0.3, 0.1), (0.4, 0.1), (0.05, 0.25), (0.02, 0.2), (0.5, 0.0)])
        nseg = min(3 if rng is None else rng.randint(2, 4), int((0.85 - d0) / gap) if gap else 4)
        a['act'] = 'exception' if 'exc' in (op.get('reply') or {}) else 'reply'
        a['code'] = (op.get('reply') or {}).get('exc', 2)
        a['slow'] = True
        a['delay'] = round(timeout * d0, 6)
        if kind == 'tcp' and len(good) > 4:      # (segments spaced out in time exist on TCP only)
            a['cuts'] = sorted(set((7 * (i + 1)) % len(good) or 1 for i in range(nseg)) if rng is None
                               else set(rng.randrange(1, len(good)) for _ in range(nseg)))
            a['cutgap'] = round(timeout * gap, 6)
    elif act == 'wrong_unit':
        a['du'] = 1 if rng is None else rng.choice([1, 3, 100])
    elif act == 'wrong_tid':
        a['dt'] = 1
    return a


def mk(kind, framing, kw, ops, extra=None):
    scn = {'property': ID, 'harness': 'cli', 'client': {'kind': kind, 'framing': framing, 'kwargs': kw},
           'callers': [ops], 'cpu_step': 1e-5, 'sched': {'tail_seed': 1}, 'max_vtime': 900.0}
    if extra:
        scn.update(extra)
    return scn


def generate(rng, tier, index):
    kind, framing = rng.choice(KINDS + [('serial', 'tcp'), ('tcp', 'ascii'), ('tcp', 'binary')])
    timeout = rng.choice([0.05, 0.2, 0.5])
    kw = {'timeout': timeout, 'retries': rng.choice([0, 1, 2, 3])}
    if rng.random() < 0.5:
        kw['retry_on_empty'] = True
    if rng.random() < 0.4:
        kw['retry_on_invalid'] = True
    if rng.random() < 0.7:
        kw['backoff'] = rng.choice([0.01, 0.1, 0.3])
    if kind == 'udp' and rng.random() < 0.06:
        kw.pop('timeout')           # the UDP client's default: no timeout at all
    if kind == 'serial' and rng.random() < 0.5:
        kw['baudrate'] = rng.choice([9600, 19200, 38400, 115200])
    gen = cc.OpGen(rng, framing, extended=rng.choice([0.0, 0.0, 0.25, 0.5]))
    unit = rng.choice([1, 1, 2, 17, 0, 255])
    enabled = rng.sample(ALPHABET[2:], rng.randint(1, 4)) + ['reply', 'exception']
    ops = []
    for i in range(rng.randint(1, 3)):
        op = gen.op(unit=unit, maxn=20, exc_rate=0.1)
        n = rng.choice([1, 1, 2, 3, 4, 5])
        op['script'] = [attempt(rng.choice(enabled), rng, framing, op, timeout, gen) for _ in range(n)]
        if rng.random() < 0.15 and kw.get('timeout'):
            # only "no reply" attempts (possibly none), then the correct reply arrives slowly but in time
            op['script'] = [attempt('nothing', rng, framing, op, timeout, gen) for _ in range(rng.choice([0, 0, 1, 2]))] + \
                [attempt('slow', rng, framing, op, timeout, gen, kind=kind)]
        ops.append(op)
    # faults must have stopped before the follow-up: let every scripted peer action (late replies,
    # resets) arrive first
    ops[-1]['think'] = round(2 * timeout + 0.1, 6)
    # two healthy follow-ups: a connection the peer reset while the client was idle is only
    # discovered by using it, so the first follow-up may still pay for that; the last one is judged
    ops.append(gen.op(unit=unit, maxn=20, exc_rate=0.0))
    if kind == 'serial' and rng.random() < 0.5:
        # the judged follow-up starts a few milliseconds after the previous frame ended: inside, at the edge of or
        # just past the RTU silent interval (1.75-4 ms for the baud rates used), where the client's bus-idle
        # bookkeeping (last_frame_end / silent_interval) decides how long to wait before sending
        ops[-1]['think'] = rng.choice([0.0005, 0.001, 0.0015, 0.002, 0.0025, 0.003, 0.0035, 0.004, 0.005, 0.007, 0.012])
    ops.append(gen.op(unit=unit, maxn=20, exc_rate=0.0))      # healthy follow-up (judged)
    extra = {'cpu_step': rng.choice([2e-6, 1e-5, 5e-5]), 'sched': {'tail_seed': rng.randrange(1 << 30)}}
    if rng.random() < 0.08 and kind in ('tcp', 'serial'):
        extra['connect_script'] = rng.choice([['refuse'], ['ok', 'refuse'], ['refuse', 'ok']])
    return mk(kind, framing, kw, ops, extra)


def systematic(tier):
    import random
    for (kind, framing) in KINDS:
        for retries, roe, roi in ((3, False, False), (1, True, False), (2, True, True), (0, False, True)):
            timeout = 0.2
            kw = {'timeout': timeout, 'retries': retries, 'backoff': 0.01}
            if roe:
                kw['retry_on_empty'] = True
            if roi:
                kw['retry_on_invalid'] = True
            scripts = [(a,) for a in ALPHABET] + list(itertools.product(ALPHABET, ALPHABET))
            if tier == 'quick':
                scripts = [s for i, s in enumerate(scripts) if len(s) == 1 or i % 3 == (retries % 3)]
            for sc in scripts:
                gen = cc.OpGen(random.Random(7), framing)
                op = gen.op(fn='read_holding_registers', unit=1, exc_rate=0.0, maxn=4)
                op['script'] = [attempt(a, None, framing, op, timeout, gen) for a in sc]
                op['think'] = round(2 * timeout + 0.1, 6)
                follow0 = gen.op(fn='read_coils', unit=1, exc_rate=0.0, maxn=8)
                follow = gen.op(fn='write_register', unit=1, exc_rate=0.0)
                yield mk(kind, framing, dict(kw), [op, follow0, follow])


def execute(scn):
    res = cli.run(scn)
    out = cc.base_outcome(scn, res)
    c = scn['client']
    kind, framing = c['kind'], c['framing']
    kw = c.get('kwargs') or {}
    timeout = kw.get('timeout', None if kind == 'udp' else 3)
    retries = kw.get('retries', 3)
    backoff = kw.get('backoff', 0.3) or 0.3
    ops = scn['callers'][0]
    sig0 = {'property': ID, 'kind': kind, 'framing': framing}
    if cc.binary_delim(scn):
        sig0['binary_delim'] = True
    from pymodbus.exceptions import ConnectionException, ModbusIOException
    refused = 'refuse' in (scn.get('connect_script') or [])
    acts_all = set()

    def add(cls, msg, **kv):
        out['violations'].append({'sig': dict(sig0, **dict({'class': cls}, **kv)), 'msg': msg})

    # (1a) every call returned
    if not res.finished:
        started = res.calls[-1] if res.calls else None
        op = ops[started['index']] if started else None
        acts = '+'.join(a['act'] for a in (op.get('script') or [])) if op else ''
        add('hang', 'call %s never returned (%s after %.1f virtual s, %d steps); script=%s'
            % (started and started['index'], res.stop_reason, res.vtime, res.steps, acts),
            how=res.stop_reason, default_timeout=('timeout' not in kw), script=acts or 'none')
    for call in res.calls:
        if 'return_seq' not in call:
            continue
        op = ops[call['index']]
        script = op.get('script') or []
        acts = [a['act'] for a in script]
        acts_all |= set(acts)
        stag = '+'.join(acts) or 'none'
        last = call['index'] == len(ops) - 1
        # (1b) no exception other than failure to establish the connection
        if call['exc'] is not None:
            ex = call['exc']
            if isinstance(ex, ConnectionException) and refused:
                continue            # failure to establish the connection is excepted by the statement
            where = '?'
            tb = ex.__traceback__
            while tb is not None:
                fn_ = tb.tb_frame.f_code.co_filename
                if '/pymodbus/' in fn_:
                    where = '%s.%s' % (fn_.rsplit('/', 1)[-1][:-3], tb.tb_frame.f_code.co_name)
                tb = tb.tb_next
            add('raised', 'call %d (%s) raised %s in %s: %s; script=%s' % (call['index'], op['fn'], type(ex).__name__, where, str(ex)[:80], stag),
                exc=type(ex).__name__, where=where, phase='follow-up' if last else 'faulty')
            continue
        r = call['result']
        # (1c) bounded duration
        if timeout is not None:
            n_att = 1 + max(retries, 1)
            bound = n_att * (4 * timeout + 1.0) + sum(backoff * 2 ** i for i in range(n_att)) + 1.0
            dur = call['t1'] - call['t0']
            if dur > bound:
                add('too-slow', 'call %d took %.2f virtual s, bound %.2f s; script=%s' % (call['index'], dur, bound, stag), script=stag)
        # (2) transmissions
        wire = [x for x in res.peer.rx if x.get('op') == (0, call['index'])] if res.peer else []
        if len(wire) > 1 + retries:
            add('too-many-transmissions', 'call %d: request transmitted %d times with retries=%d; script=%s'
                % (call['index'], len(wire), retries, stag), retries=retries, sent=len(wire),
                first_act=acts[0] if acts else 'none')
        if r is None:
            add('returned-none', 'call %d returned None; script=%s' % (call['index'], stag))
            continue
        bcast = bool(kw.get('broadcast_enable')) and op.get('unit') == 0
        if bcast:
            continue
        # (3) documented retry options
        if script and not last:
            slow_end = bool(script[-1].get('slow'))
            body = acts[:-1] if slow_end else acts
            j = len(body)
            empties = all(a in ('nothing',) for a in body)
            invalids = all(a in ('wrong_unit',) for a in body) and j > 0
            # (judged on a client without fault history: a reset by the peer is only discovered by the next
            # transaction that uses the connection, which is the business of the follow-up clause)
            clean = all(not o.get('script') for o in ops[:call['index']])
            if slow_end and not clean:
                pass
            elif slow_end and j == 0 and not cc.leftover_input(res, call) and kind in ('tcp', 'serial'):
                ok, why = cc.values_match(op, r)
                if not ok:
                    add('timely-reply-rejected', 'call %d: the correct reply arrived slowly (start after %.3f s, %d segments %.3f s apart) '
                        'but completely within the timeout of %.3f s, and the call returned %s (%s)'
                        % (call['index'], script[-1].get('delay', 0), 1 + len(script[-1].get('cuts') or []),
                           script[-1].get('cutgap', 0), timeout or 0, type(r).__name__, why),
                        segments=min(1 + len(script[-1].get('cuts') or []), 3))
            elif j and j <= retries and ((empties and kw.get('retry_on_empty')) or (invalids and kw.get('retry_on_invalid'))) \
                    and not cc.leftover_input(res, call) and (not slow_end or kind in ('tcp', 'serial')):
                ok, why = cc.values_match(op, r)
                if not ok:
                    add('retry-not-honoured', 'call %d: %d %s repl%s then a valid reply within the budget (retries=%d, '
                        'retry_on_empty=%s, retry_on_invalid=%s) but the call returned %s (%s); transmissions=%d'
                        % (call['index'], j, 'empty' if empties else 'foreign-unit', 'y' if j == 1 else 'ies', retries,
                           bool(kw.get('retry_on_empty')), bool(kw.get('retry_on_invalid')), type(r).__name__, why, len(wire)),
                        option='retry_on_empty' if empties else 'retry_on_invalid',
                        both=bool(kw.get('retry_on_empty')) and bool(kw.get('retry_on_invalid')),
                        unit0=op.get('unit') in (0, 255))
        # (4) recovery: the healthy follow-up returns its own correct reply
        if last and not script:
            ok, why = cc.values_match(op, r)
            if not ok:
                pa = prior_acts(ops, call['index'])
                left = cc.leftover_input(res, call)
                add('no-recovery', 'healthy follow-up (%s) after script %s returned %s: %s%s'
                    % (op['fn'], '+'.join(pa) or 'none', type(r).__name__, why,
                       ' [unconsumed input from earlier transactions was pending on the link]' if left else ''),
                    leftover_input=left, got='error' if cc.is_error_object(r) else 'foreign-reply')
    for a in acts_all:
        if a not in ('reply',):
            out['faults'][a] = out['faults'].get(a, 0) + 1
    if refused:
        out['faults']['connect_refused'] = 1
    out['nontrivial'] = bool(acts_all - {'reply'}) or refused
    out['probes']['retry_loop_iterated'] = 1 if any(
        len([x for x in res.peer.rx if x.get('op') == (0, cl['index'])]) >= 2 for cl in res.calls) and res.peer else 0
    out['probes']['backoff_sleeps'] = res.counters.get('sleep', 0)
    return out


def prior_acts(ops, idx):
    out = []
    for op in ops[:idx + 1]:
        out += [a['act'] for a in (op.get('script') or [])]
    return out


shrink_steps = cc.shrink_steps
