"""C15 - concurrent callers of one synchronous client are serialised."""
import copy

from . import clicommon as cc
from harness import cli

ID = 'C15'
TITLE = 'Concurrent callers of one synchronous client are serialised'
QUICK_S = 45
THOROUGH_S = 600
RULE = ('2-4 caller tasks x 1-3 transactions on ONE shared real client (TCP, UDP, serial-rtu), started together or 0.2-30 ms apart, all callers on one unit or spread over the units of a gateway; the reference server answers '
        'every request correctly with per-request reply lengths and latencies and unique values; the scheduler may pre-empt a '
        'caller at every transport operation (connect, send, select/recv/read, sleep, lock acquire) and, in the thorough tier, '
        'at 1-3 selected line events inside transaction.py / client/sync.py / framers (PCT-style). Systematic part: for 2 '
        'callers x 1 transaction every schedule with exactly one and exactly two deviations from the sequential schedule. '
        'Oracle over the history: the intervals [first send, last receive] of different callers are pairwise disjoint in '
        'kernel sequence numbers, every call returns (no simulated deadlock), each caller gets the reply to its own request '
        '(unique values). Non-trivial = >=2 callers overlapped in time (a caller was started before another finished); '
        'distinct = distinct sequence of (actor, event kind) in the kernel log')
ASSUMPTIONS = ['the transaction lock is the SimRLock stand-in (same re-entrant semantics; contention parks the task); a mutant that removes, narrows or re-creates the lock is unaffected by the stub',
               'fault-free peer: every request gets its correct reply']
STUBS = cc.STUBS
KINDS = [('tcp', 'tcp'), ('tcp', 'tcp'), ('udp', 'tcp'), ('serial', 'rtu')]


def build(rng, kind, framing, ncallers, nops, lat):
    gen = cc.OpGen(rng, framing, extended=rng.choice([0.0, 0.0, 0.25, 0.5]))
    callers = []
    # one slave, or a gateway with several slaves behind it: callers then address different units
    units = rng.choice([[1], [1], [1, 2], [1, 2, 17, 200]])
    for ci in range(ncallers):
        ops = []
        cu = rng.choice(units)
        for oi in range(nops[ci]):
            op = gen.op(fn=rng.choice(['read_holding_registers', 'read_input_registers', 'read_coils', 'write_register',
                                       'write_registers', 'read_holding_registers']),
                        unit=cu if rng.random() < 0.8 else rng.choice(units), exc_rate=0.0,
                        maxn=rng.choice([2, 10, 40]))
            op['script'] = [{'act': 'reply', 'delay': rng.choice(lat)}]
            ops.append(op)
        callers.append(ops)
    return callers


def generate(rng, tier, index):
    kind, framing = rng.choice(KINDS)
    n = rng.choice([2, 2, 3, 4])
    nops = [rng.randint(1, 3) for _ in range(n)]
    callers = build(rng, kind, framing, n, nops, [0.0005, 0.001, 0.003, 0.01, 0.02])
    kw = {'timeout': 0.5, 'retries': rng.choice([0, 1, 3])}
    if rng.random() < 0.25:
        # broadcast writes (unit 0, no reply) are transactions too: they must not cut into another
        # caller's transaction either
        kw['broadcast_enable'] = True
        for ops in callers:
            for op in ops:
                if op['fn'] in ('write_register', 'write_registers') and rng.random() < 0.6:
                    op['unit'] = 0
    if kind != 'udp' and rng.random() < 0.3:     # (UDP retries never deliver: known finding KF-C13-UDP-RETRY)
        # a lost reply and a retry (with its back-off sleep) are part of a transaction: nobody else may
        # get in between.  Only 'nothing' is used (no reply at all), so no stray bytes are left on the link.
        kw.update({'retry_on_empty': True, 'retries': rng.choice([1, 2]), 'backoff': rng.choice([0.02, 0.05]), 'timeout': 0.05})
        for ops in callers:
            for op in ops:
                if rng.random() < 0.4:
                    op['script'] = [{'act': 'nothing'}] + op['script']
    elif rng.random() < 0.2:
        # a slow device behind a generous client timeout: one transaction legitimately lasts longer than the library's
        # DEFAULT timeout x (retries + 1), so a caller queues behind it for longer than any bound derived from defaults
        kw.update({'timeout': rng.choice([5.0, 10.0, 20.0]), 'retries': rng.choice([0, 0, 1])})
        for ops in callers:
            for op in ops:
                for st in op['script']:
                    if st.get('act') == 'reply':
                        st['delay'] = rng.choice([0.01, 1.0, 3.5, 4.5]) if kw['timeout'] == 5.0 else rng.choice([0.01, 2.0, 4.0, 7.5])
    sched = {'tail_seed': rng.randrange(1 << 30)}
    if tier == 'thorough' and rng.random() < 0.4:
        # PCT-style: 1-3 forced switches at line events inside the client code
        sched['preempt_lines'] = sorted(set(rng.randrange(1, 2500) for _ in range(rng.randint(1, 3))))
    scn = {'property': ID, 'harness': 'cli', 'client': {'kind': kind, 'framing': framing, 'kwargs': kw},
           'callers': callers, 'cpu_step': rng.choice([2e-6, 1e-5, 5e-5]), 'sched': sched,
           'preconnect': rng.random() < 0.85}
    if rng.random() < 0.5:
        # threads do not start in lock-step: a caller may enter execute() at any instant of another caller's
        # transaction (before its request is out, while its reply is on the way, between two of its reads)
        scn['caller_delay'] = [0.0] + [rng.choice([0.0, 0.0002, 0.0005, 0.001, 0.002, 0.003, 0.008, 0.015, 0.03])
                                       for _ in range(n - 1)]
    return scn


def systematic(tier):
    import random
    for kind, framing in (('tcp', 'tcp'), ('udp', 'tcp'), ('serial', 'rtu')):
        rng = random.Random(11)
        callers = build(rng, kind, framing, 2, [1, 1], [0.001, 0.004])
        base = {'property': ID, 'harness': 'cli', 'client': {'kind': kind, 'framing': framing,
                                                             'kwargs': {'timeout': 0.5, 'retries': 1}},
                'callers': callers, 'cpu_step': 1e-5, 'sched': {'choices': [], 'tail_seed': 0}, 'preconnect': True}
        # length of the all-first schedule
        probe = copy.deepcopy(base)
        probe['sched']['choices'] = [0] * 400
        res = cli.run(probe)
        L = len(res.executed_choices)
        L = min(L, 60)
        for i in range(L):
            for v in (1, 2):
                s = copy.deepcopy(base)
                s['sched']['choices'] = [0] * i + [v] + [0] * 400
                yield s
        lim = L if tier != 'quick' else min(L, 24)
        for i in range(lim):
            for j in range(i + 1, lim):
                s = copy.deepcopy(base)
                ch = [0] * 400
                ch[i] = 1
                ch[j] = 1
                s['sched']['choices'] = ch
                yield s


def execute(scn):
    res = cli.run(scn)
    out = cc.base_outcome(scn, res)
    c = scn['client']
    kind, framing = c['kind'], c['framing']
    sig0 = {'property': ID, 'kind': kind, 'preconnected': bool(scn.get('preconnect'))}

    def add(cls, msg, **kv):
        out['violations'].append({'sig': dict(sig0, **dict({'class': cls}, **kv)), 'msg': msg})
    if not res.finished:
        add('deadlock' if res.stop_reason == 'quiescent' else 'no-progress',
            'not every call returned: stop=%s after %.3f virtual s, %d steps' % (res.stop_reason, res.vtime, res.steps),
            how=res.stop_reason)
    for name, ex in res.task_exc:
        add('task-exception', '%s died with %s: %s' % (name, type(ex).__name__, ex), exc=type(ex).__name__)
    # intervals per call from the transport history (client endpoints only)
    io = [x for x in res.io if x[3].startswith('cli')]
    spans = []
    for call in res.calls:
        if 'return_seq' not in call:
            continue
        task = 'caller%d' % call['caller']
        mine = [x for x in io if x[1] == task and call['invoke_seq'] < x[0] < call['return_seq']]
        sends = [x[0] for x in mine if x[2] == 'send']
        recvs = [x[0] for x in mine if x[2] == 'recv']
        if sends:
            spans.append((sends[0], max(recvs) if recvs else sends[-1], call))
    spans.sort(key=lambda s: s[0])
    for a, b in zip(spans, spans[1:]):
        if a[2]['caller'] != b[2]['caller'] and b[0] < a[1]:
            add('transactions-overlap', 'caller%d sent (seq %d) while caller%d was between its send (seq %d) and the end of its receive (seq %d)'
                % (b[2]['caller'], b[0], a[2]['caller'], a[0], a[1]))
            break
    for call in res.calls:
        if 'return_seq' not in call:
            continue
        op = scn['callers'][call['caller']][call['index']]
        if call['exc'] is not None:
            add('raised', 'caller%d call %d raised %s: %s' % (call['caller'], call['index'], type(call['exc']).__name__, str(call['exc'])[:80]),
                exc=type(call['exc']).__name__)
            continue
        if (scn['client'].get('kwargs') or {}).get('broadcast_enable') and op.get('unit') == 0:
            continue                # broadcast: a constant is returned by design, nothing to pair
        ok, why = cc.values_match(op, call['result'])
        if not ok:
            from pymodbus.exceptions import ModbusIOException
            cls = 'reply-lost' if isinstance(call['result'], ModbusIOException) else 'reply-swapped'
            add(cls, 'caller%d call %d (%s) got %s: %s' % (call['caller'], call['index'], op['fn'], type(call['result']).__name__, why))
    # did callers really overlap in time?
    inv = sorted((c_['invoke_seq'], c_.get('return_seq', 1 << 60), c_['caller']) for c_ in res.calls)
    overl = any(b[0] < a[1] and a[2] != b[2] for a, b in zip(inv, inv[1:]))
    out['nontrivial'] = overl
    out['probes']['lock_contended'] = res.counters.get('lock_contended', 0)
    out['probes']['callers_overlapped'] = 1 if overl else 0
    out['probes']['connections_opened'] = res.connects
    out['probes']['line_preemptions'] = res.counters.get('line_preempt', 0)
    out['probes']['retried_transactions'] = sum(1 for ops in scn['callers'] for op in ops if any(a['act'] == 'nothing' for a in op.get('script') or []))
    out['probes']['broadcast_ops'] = sum(1 for ops in scn['callers'] for op in ops if op.get('unit') == 0)
    out['cell'] = '%s/%s/%s' % (kind, len(scn['callers']), 'line' if (scn.get('sched') or {}).get('preempt_lines') else 'transport')
    return out


shrink_steps = cc.shrink_steps
