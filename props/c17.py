"""C17 - all server front-ends are behaviourally interchangeable."""
import copy

from . import srvcommon as sc
from ref import codec

ID = 'C17'
TITLE = 'All server front-ends are behaviourally interchangeable'
QUICK_S = 50
THOROUGH_S = 600
RULE = ('one H-SRV scenario (data-access and identification requests, 1-3 connections, single/multi context, '
        'ignore_missing_slaves; an application-defined function code registered on 10 % of the servers) executed on every front-end of its family - stream {sync-TCP, asyncio-TCP, Twisted-TCP} on the '
        'TCP/RTU/ASCII/binary framers, datagram {sync-UDP, asyncio-UDP, Twisted-UDP} - in three experiments: (1) serialised '
        'delivery (global order fixed, front-end quiescent between chunks): per-connection response bytes and final datastore '
        'dumps must be identical across front-ends; (2) concurrent delivery (chunks of different connections in flight '
        'together, interleaving decided by the scheduler seed): each front-end is compared with the data model under the '
        'execution order it exhibited; (3) isolation: an extra connection sending a partial frame or garbage must not change '
        'the responses of any other connection. Non-trivial = >=2 front-ends ran the scenario and >=1 request executed; distinct = '
        'kernel event-kind sequence of the first front-end + family + framing')
ASSUMPTIONS = ['features not common to all front-ends are excluded: broadcast, listen-only handling, diagnostic counters',
               'reference data model ref/device.py for experiment 2']
STUBS = sc.STUBS

FAMILIES = {'stream': ['sync_tcp', 'aio_tcp', 'tw_tcp'], 'dgram': ['sync_udp', 'aio_udp', 'tw_udp']}
PROFILE = {'invalid_rate': 0.12, 'opaque_rate': 0.0, 'unknown_unit_rate': 0.12, 'multi_rate': 0.4, 'broadcast_rate': 0.0,
           'max_conns': 3, 'max_reqs': 6, 'pipeline_rate': 0.0, 'allow_tls': False, 'cut_rate': 0.15, 'custom_rate': 0.1, 'peer_close_rate': 0.1,
           'dgram_dup_rate': 0.06, 'socket_timeout_rate': 0.2}
IDENT = [bytes([43, 14, 1, 0]), bytes([43, 14, 2, 0]), bytes([43, 14, 4, 1]), bytes([17])]


def generate(rng, tier, index):
    fam = rng.choice(['stream', 'stream', 'dgram'])
    prof = dict(PROFILE, kinds=[FAMILIES[fam][0]])
    if fam == 'stream':
        prof['framings'] = [rng.choice(['tcp', 'tcp', 'rtu', 'ascii', 'binary'])]
    scn = sc.gen_scenario(rng, sc.deepen(rng, prof, tier))
    scn['opts'].pop('broadcast_enable', None)
    scn['property'] = ID
    scn['family'] = fam
    # sprinkle identification requests
    for reqs in scn['conns']:
        for r in reqs:
            if rng.random() < 0.08 and r.get('tag') == 'valid':
                cand = rng.choice(IDENT).hex()
                if not any(x['pdu'] == cand and x['u'] == r['u'] for rr in scn['conns'] for x in rr):
                    r['pdu'] = cand
                    r['tag'] = 'opaque'
    scn['experiment'] = rng.choice(['serialised', 'serialised', 'concurrent', 'isolation'] if fam == 'stream'
                                   else ['serialised', 'serialised', 'concurrent'])
    if scn['experiment'] in ('serialised', 'isolation'):
        # (isolation too: the order in which the victims' writes take effect must not depend on
        # whether the disturber is present, so their chunks are strictly ordered in time)
        # strictly increasing global times: the front-end is quiescent between chunks
        t = 0.0
        allr = sorted(((r['at'], c, i) for c, reqs in enumerate(scn['conns']) for i, r in enumerate(reqs)))
        for (_, c, i) in allr:
            t += 0.1                # > the span of a frame delivered in pieces (<= 3 x 0.0125 s)
            scn['conns'][c][i]['at'] = round(t, 6)
    elif scn['experiment'] == 'concurrent':
        for c, reqs in enumerate(scn['conns']):
            for i, r in enumerate(reqs):
                r['at'] = round(0.1 * (i + 1), 6)        # request i of every connection at the same instant
    if scn['experiment'] == 'isolation':
        # isolation: connection 0 is the disturber
        kind = rng.choice(['partial', 'garbage', 'partial_then_rest'])
        victim = scn['conns']
        p = sc.gen_valid(rng, __import__('ref.device', fromlist=['x']).RefUnit(scn['units'][sorted(scn['units'])[0]]), sc.Uniq(rng)) or bytes([3, 0, 0, 0, 1])
        fr = codec.frame(scn['framing'], int(sorted(scn['units'], key=int)[0]) if not scn.get('single', True) else 1, p, tid=0x4444)
        if kind == 'garbage':
            raw = bytes(rng.randrange(256) for _ in range(rng.choice([1, 3, 7, 20])))
        else:
            raw = fr[:rng.randrange(1, len(fr))]
        dist = [{'raw': raw.hex(), 'at': round(0.05 + 0.1 * rng.randrange(0, 4), 6), 'tag': 'hostile', 'hk': kind}]
        if kind == 'partial_then_rest' and len(raw) < len(fr):
            # the rest of the frame later: a complete valid request of its own, which may change the
            # data the victims read - only the framing state must stay private, so use a read
            fr = codec.frame(scn['framing'], 1, codec.req_read(3, 0, 1), tid=0x4444)
            cut = rng.randrange(1, len(fr))
            dist = [{'raw': fr[:cut].hex(), 'at': dist[0]['at'], 'tag': 'hostile', 'hk': kind},
                    {'raw': fr[cut:].hex(), 'at': round(dist[0]['at'] + 0.2, 6), 'tag': 'hostile', 'hk': kind}]
        scn['conns'] = [dist] + victim
        scn['hostile'] = [0]
        scn['disturb'] = kind
    return scn


def run_on(scn, kind):
    s = copy.deepcopy(scn)
    s['frontend'] = kind
    res = sc.execute_srv(s)
    return s, res


def execute(scn):
    fam = scn['family']
    kinds = FAMILIES[fam]
    runs = {}
    for kind in kinds:
        runs[kind] = run_on(scn, kind)
    first = runs[kinds[0]][1]
    out = sc.base_outcome(scn, first)
    out['shape'] = first.shape + ':' + fam + ':' + scn['framing'] + ':' + scn['experiment']
    out['steps'] = sum(r.steps for (_, r) in runs.values())
    out['vtime'] = sum(r.vtime for (_, r) in runs.values())
    out['cell'] = '%s/%s/%s' % (fam, scn['framing'], scn['experiment'])
    sig0 = {'property': ID, 'family': fam, 'framing': scn['framing'], 'experiment': scn['experiment']}
    if sc.binary_delim(scn, first):
        sig0['binary_delim'] = True
    has_invalid = any(r.get('tag') == 'invalid' for reqs in scn['conns'] for r in reqs)
    has_absent = (not scn.get('single', True)) and any(r.get('raw') is None and str(r['u']) not in scn['units']
                                                        for reqs in scn['conns'] for r in reqs)

    def add(cls, msg, **kv):
        out['violations'].append({'sig': dict(sig0, **dict({'class': cls}, **kv)), 'msg': msg})
    exp = scn['experiment']
    nconn = len(scn['conns'])
    if exp == 'serialised':
        ref_kind = kinds[0]
        for kind in kinds[1:]:
            a, b = runs[ref_kind][1], runs[kind][1]
            for c in range(nconn):
                oa, ob = b''.join(a.outputs.get(c, [])), b''.join(b.outputs.get(c, []))
                if fam == 'dgram':
                    oa, ob = sorted(a.outputs.get(c, [])), sorted(b.outputs.get(c, []))
                if oa != ob:
                    add('outputs-differ', 'connection %d: %s wrote %s, %s wrote %s'
                        % (c, ref_kind, (oa if isinstance(oa, bytes) else b'|'.join(oa)).hex()[:80], kind,
                           (ob if isinstance(ob, bytes) else b'|'.join(ob)).hex()[:80]),
                        pair='%s!=%s' % (kind, ref_kind), has_invalid=has_invalid, has_absent_unit=has_absent)
                    break
            if a.final != b.final:
                add('final-state-differs', 'datastores differ after the same inputs: %s vs %s: %s'
                    % (ref_kind, kind, sc.Analysis._diff(b.final, a.final)), pair='%s!=%s' % (kind, ref_kind),
                    has_invalid=has_invalid, has_absent_unit=has_absent)
            if bool(a.errors) != bool(b.errors):
                add('escape-differs', '%s errors=%s, %s errors=%s' % (ref_kind, a.errors[:1], kind, b.errors[:1]),
                    pair='%s!=%s' % (kind, ref_kind))
    elif exp == 'concurrent':
        for kind in kinds:
            s, res = runs[kind]
            an = sc.Analysis(s, res)
            for cls, detail, msg in an.v:
                if cls in ('state-mismatch', 'wrong-response', 'wrong-unit', 'exec-unsolicited', 'response-extra', 'output-garbled',
                           'response-missing', 'response-stray') and detail.get('tag') in (None, 'valid'):
                    add('interleaving-' + cls, '%s: %s' % (kind, msg), frontend=kind, fc=detail.get('fc'))
    else:
        base = copy.deepcopy(scn)
        base['conns'][0] = []
        base.pop('hostile', None)
        for kind in kinds:
            s, res = runs[kind]
            _, quiet = run_on(base, kind)
            for c in range(1, nconn):
                oa, ob = b''.join(quiet.outputs.get(c, [])), b''.join(res.outputs.get(c, []))
                if oa != ob:
                    add('isolation-broken', '%s: connection %d answers %s when connection 0 is silent but %s when it sends %s'
                        % (kind, c, oa.hex()[:60], ob.hex()[:60], scn.get('disturb')), frontend=kind, disturb=scn.get('disturb'))
                    break
            out['steps'] += quiet.steps
    out['nontrivial'] = len(first.execs) >= 1
    out['probes']['frontends_compared'] = len(kinds)
    out['probes']['connections'] = nconn
    out['faults'] = {}
    if exp == 'isolation':
        out['faults']['disturb_' + str(scn.get('disturb'))] = 1
    return out


shrink_steps = sc.shrink_steps
