"""Shared generator and lock-step analysis for the server-side properties
(C04, C05, C09, C10, C12, C17), all of which run on H-SRV.

Scenario (JSON):
  frontend, framing, single, units{...layouts}, opts, conns: [[REQ...], ...], cpu_step, sched, settle
  REQ = {u, tid, pdu(hex), at(float, virtual seconds after start), join(bool), cuts([offsets]), cutgap, tag}
`deliveries` for harness.srv are derived from `conns` here (derive()).
"""
import copy

from ref import codec, device as refdev
from harness import srv
from sim.frontends import STREAM_KINDS, DGRAM_KINDS
from engine import shrink as sh

FRAMINGS_FOR = {
    'sync_tcp': ['tcp', 'tcp', 'tcp', 'rtu', 'ascii', 'binary', 'tls'],
    'sync_serial': ['rtu', 'ascii', 'binary'],
    'sync_udp': ['tcp'],
    'aio_tcp': ['tcp', 'tcp', 'tcp', 'rtu', 'ascii', 'binary', 'tls'],
    'aio_udp': ['tcp'],
    'tw_tcp': ['tcp', 'tcp', 'rtu', 'ascii', 'binary'],
    'tw_udp': ['tcp'],
}
HAS_BROADCAST = ('sync_tcp', 'sync_serial', 'sync_udp', 'aio_tcp', 'aio_udp')
UNKNOWN_FCS = [9, 10, 13, 14, 18, 19, 25, 30, 42, 44, 65, 100, 127]

STUBS = {
    'real': ['pymodbus.framer.*', 'pymodbus.factory', 'pymodbus.pdu', 'pymodbus.*_message',
             'pymodbus.datastore.store/context', 'pymodbus.device',
             'pymodbus.server.sync (ModbusTcpServer, ModbusUdpServer, ModbusSerialServer and all handlers; one OS thread per connection under the baton scheduler)',
             'pymodbus.server.async_io (ModbusTcpServer, ModbusUdpServer, handlers, handle() coroutine, asyncio.Queue/Task)',
             'pymodbus.server.asynchronous (ModbusServerFactory, ModbusTcpProtocol, ModbusUdpProtocol)'],
    'stub': ['OS sockets / listening socket / accept loop (SimSocket, FakeListenSocket; harness calls process_request per accepted connection)',
             'pyserial port (SimSerial: read(n) blocks until n bytes or timeout)',
             'asyncio selector loop (SimLoop: virtual clock, own turn function, inherited call_soon/Task/Future/Queue)',
             'Twisted reactor (direct calls of makeConnection/dataReceived/datagramReceived/connectionLost with the reactor error contract)',
             'thread scheduling (baton-passed OS threads, pre-emption at transport calls)',
             'peer (reference client: spec-derived codec ref/codec.py + data model ref/device.py)'],
}


# ------------------------------------------------------------------ layouts
def gen_block(rng, bit, zero_mode):
    if rng.random() < 0.78:
        start = rng.choice([0, 1, 1, 1, 2, 3, 10, 17, 100, 1000, 40001, 65500])
        size = rng.choice([1, 2, 3, 8, 9, 15, 16, 17, 24, 40, 64, 130, 260])
        top = 65535 if zero_mode else 65536
        if start + size - 1 > top:
            size = top - start + 1
        if bit:
            init = [bool(rng.getrandbits(1)) for _ in range(rng.choice([1, 3, 8, 11]))]
        else:
            base = rng.randrange(0, 60000)
            init = [(base + 37 * i) & 0xFFFF for i in range(rng.choice([1, 4, 7, 16]))]
            init = [v if not has_delim(v.to_bytes(2, 'big')) else (v ^ 0x0101) for v in init]
        return {'kind': 'seq', 'start': start, 'size': size, 'init': init}
    base = rng.choice([0, 1, 5, 100, 5000])
    n = rng.choice([3, 6, 12, 30])
    cells = {}
    a = base
    for i in range(n):
        v = rng.randrange(0, 65536)
        cells[str(a)] = bool(v & 1) if bit else (v if not has_delim(v.to_bytes(2, 'big')) else (v ^ 0x0101))
        a += 1 if rng.random() < 0.75 else rng.choice([2, 3, 10])
    return {'kind': 'sparse', 'cells': cells}


def gen_layout(rng):
    zero = rng.random() < 0.5
    lay = {'zero_mode': zero, 'tables': {}}
    for t in ('c', 'd', 'h', 'i'):
        lay['tables'][t] = gen_block(rng, t in ('c', 'd'), zero)
    if rng.random() < 0.1:
        # some tables left at the datastore's constructor default (fully populated, all zero)
        for t in rng.sample(['c', 'd', 'h', 'i'], rng.randint(2, 4)):
            lay['tables'][t] = {'kind': 'default'}
        return lay
    share = {}
    if rng.random() < 0.12:
        share['d'] = 'c'
    if rng.random() < 0.12:
        share['i'] = 'h'
    if share:
        lay['share'] = share
    return lay


def has_delim(b):
    return 0x7B in b or 0x7D in b


def binary_delim(scn, res=None):
    """coordinate: did a '{' or '}' byte occur inside a binary frame of this run?"""
    if scn['framing'] != 'binary':
        return False
    for reqs in scn['conns']:
        for r in reqs:
            if r.get('raw') is not None:
                continue
            if has_delim(codec.frame('binary', r['u'], bytes.fromhex(r['pdu']))[1:-1]):
                return True
    if res is not None:
        for chunks in res.outputs.values():
            for c in chunks:
                if has_delim(c[1:-1]):
                    return True
    return False


LISTEN_ONLY = bytes([8, 0, 4, 0, 0])


def listen_only(scn, res=None):
    """coordinate: did the server execute a force-listen-only request (FC 08 / 04) in this run (without a
    result: does the scenario ask for one)?  The Twisted front-ends then ignore all further input."""
    if res is not None and any(bytes(e['pdu'][:3]) == LISTEN_ONLY[:3] for e in res.execs):
        return True         # (whatever its data field says: hostile bytes may carry 08/04 with any data)
    return any(r.get('raw') is None and r.get('pdu') == LISTEN_ONLY.hex() for reqs in scn['conns'] for r in reqs)


def runs_of(addrs):
    """contiguous runs [(start, length)] of a set of ints"""
    out = []
    for a in sorted(addrs):
        if out and out[-1][0] + out[-1][1] == a:
            out[-1][1] += 1
        else:
            out.append([a, 1])
    return [(s, n) for s, n in out]


class Uniq(object):
    def __init__(self, rng):
        self.v = rng.randrange(1, 50000)

    def next(self):
        while True:
            self.v = (self.v + 1) & 0xFFFF
            if self.v == 0:
                self.v = 1
            if not has_delim(self.v.to_bytes(2, 'big')):
                return self.v


# ----------------------------------------------------------------- requests
def pick_range(rng, unit, table, maxq):
    """A valid (addr, qty) inside table `table` of RefUnit `unit`, biased to edges."""
    tab = unit.table(table)
    if getattr(tab, 'full', None) is not None:
        # fully populated default table: stay near the ends and a few interior spots
        lo, hi = tab.full[0], tab.full[1]
        base = rng.choice([lo, lo + 1, 7, 100, 1000, 40000, hi - 300, hi - 1, hi])
        runs = [(max(lo, min(base, hi)), min(300, hi - max(lo, min(base, hi)) + 1))]
    else:
        runs = runs_of(tab.keys())
    if not runs:
        return None
    s, n = rng.choice(runs)
    q = min(n, maxq)
    mode = rng.random()
    if mode < 0.25:
        qty = q
        addr = s
    elif mode < 0.45:
        qty = rng.randint(1, q)
        addr = s + n - qty          # ends exactly at the run's end
    elif mode < 0.6:
        qty = 1
        addr = rng.choice([s, s + n - 1])
    else:
        qty = rng.randint(1, q)
        addr = rng.randint(s, s + n - qty)
    return addr, qty


def gen_valid(rng, unit, uniq, fcs=None):
    fc = rng.choice(fcs or [1, 2, 3, 4, 5, 6, 15, 16, 22, 23, 3, 16, 6, 1, 15])
    t = refdev.TABLE_OF_FC[fc]
    if fc in (1, 2):
        r = pick_range(rng, unit, t, 2000)
        return r and codec.req_read(fc, *r)
    if fc in (3, 4):
        r = pick_range(rng, unit, t, 125)
        return r and codec.req_read(fc, *r)
    if fc == 5:
        r = pick_range(rng, unit, t, 1)
        return r and codec.req_write_coil(r[0], rng.choice([0xFF00, 0x0000, 0xFF00]))
    if fc == 6:
        r = pick_range(rng, unit, t, 1)
        return r and codec.req_write_reg(r[0], uniq.next())
    if fc == 15:
        r = pick_range(rng, unit, t, 1968)
        return r and codec.req_write_coils(r[0], [bool(rng.getrandbits(1)) for _ in range(r[1])])
    if fc == 16:
        r = pick_range(rng, unit, t, 123)
        return r and codec.req_write_regs(r[0], [uniq.next() for _ in range(r[1])])
    if fc == 22:
        r = pick_range(rng, unit, t, 1)
        am = rng.choice([0xFFFF, 0x0000, 0x00FF, 0xF0F0, rng.randrange(65536)])
        om = rng.choice([0x0000, 0xFFFF, 0x0F0F, 0x00F2, rng.randrange(65536)])
        return r and codec.req_mask_write(r[0], am, om)
    if fc == 23:
        r = pick_range(rng, unit, t, 125)
        w = pick_range(rng, unit, t, 121)
        return r and w and codec.req_read_write(r[0], r[1], w[0], [uniq.next() for _ in range(w[1])])
    return None


def gen_invalid(rng, unit, uniq):
    """A request with exactly the kinds of fault C05 lists (well-formed PDU)."""
    kind = rng.choice(['qty0', 'qtybig', 'qtymax1', 'addr_lo', 'addr_hi', 'addr_far', 'bytecount',
                       'coilword', 'unknownfc', 'rw_one_bad', 'addr_wrap', 'qtybig', 'addr_hi', 'across_hole'])
    fc = rng.choice([1, 2, 3, 4, 5, 6, 15, 16, 22, 23])
    t = refdev.TABLE_OF_FC[fc]
    lim = {1: 2000, 2: 2000, 3: 125, 4: 125, 15: 1968, 16: 123, 23: 125}.get(fc, 1)
    tab_ = unit.table(t)
    if getattr(tab_, 'full', None) is not None:
        runs = [(tab_.full[0], tab_.full[1] - tab_.full[0] + 1)]
    else:
        runs = runs_of(tab_.keys())
    s, n = rng.choice(runs) if runs else (0, 0)

    def build(addr, qty):
        addr &= 0xFFFF
        if fc in (1, 2, 3, 4):
            return codec.req_read(fc, addr, qty & 0xFFFF)
        if fc == 5:
            return codec.req_write_coil(addr, 0xFF00)
        if fc == 6:
            return codec.req_write_reg(addr, uniq.next())
        if fc == 15:
            nb = min(max(qty, 0), 1976)
            return codec.req_write_coils(addr, [True] * nb, qty=qty & 0xFFFF)
        if fc == 16:
            nr = min(max(qty, 0), 123)
            return codec.req_write_regs(addr, [uniq.next() for _ in range(nr)], qty=qty & 0xFFFF)
        if fc == 22:
            return codec.req_mask_write(addr, 0x00FF, 0x1200)
        if fc == 23:
            nr = min(max(qty, 1), 121)
            return codec.req_read_write(addr, qty & 0xFFFF, s & 0xFFFF, [uniq.next() for _ in range(min(nr, max(n, 1)))])
    if kind == 'across_hole':
        # a range whose first and last cells exist but which spans unpopulated addresses (sparse block)
        cands = [(a, b) for a, b in zip(runs, runs[1:]) if b[0] - (a[0] + a[1]) >= 1 and b[0] + 1 - a[0] <= lim]
        if not cands or fc in (5, 6, 22):
            return None
        a, b = rng.choice(cands)
        start = rng.randint(max(a[0], b[0] + 1 - lim), a[0] + a[1] - 1)
        end = rng.randint(b[0], min(b[0] + b[1] - 1, start + lim - 1))
        return build(start, end - start + 1)
    if kind == 'unknownfc':
        return bytes([rng.choice(UNKNOWN_FCS)]) + bytes(rng.randrange(256) for _ in range(rng.choice([0, 1, 4])))
    if kind == 'qty0':
        return build(s, 0)
    if kind == 'qtybig':
        return build(s, rng.choice([lim + 1, lim + 2, 0x7FF, 0x8000, 0xFFFF]))
    if kind == 'qtymax1':
        return build(s, lim + 1)
    if kind == 'addr_lo':
        return build(s - 1, min(2, max(n, 1)))
    if kind == 'addr_hi':
        q = rng.randint(1, min(lim, max(n, 1)))
        return build(s + n - q + 1, q)
    if kind == 'addr_far':
        return build(rng.choice([0, 65535, s + n + 5, 30000]), 1)
    if kind == 'addr_wrap':
        return build(65535, min(3, lim))
    if kind == 'bytecount':
        if fc not in (15, 16, 23):
            fc2 = rng.choice([15, 16, 23])
        else:
            fc2 = fc
        t2 = refdev.TABLE_OF_FC[fc2]
        r = pick_range(rng, unit, t2, {15: 64, 16: 20, 23: 20}[fc2])
        if not r:
            return None
        a, q = r
        if fc2 == 15:
            data = codec.pack_bits([True] * q)
            delta = rng.choice([-1, 1, 2])
            bc = max(0, len(data) + delta)
            # keep the PDU well-formed: data length follows the byte count field
            return codec.req_write_coils(a, [], qty=q, byte_count=bc, data=(data + b'\x00\x00')[:bc])
        if fc2 == 16:
            bc = max(0, 2 * q + rng.choice([-2, -1, 1, 2]))
            data = b''.join(uniq.next().to_bytes(2, 'big') for _ in range(q + 1))[:bc]
            return codec.req_write_regs(a, [], qty=q, byte_count=bc, data=data)
        bc = max(0, 2 * q + rng.choice([-2, -1, 1, 2]))
        data = b''.join(uniq.next().to_bytes(2, 'big') for _ in range(q + 1))[:bc]
        return codec.req_read_write(a, 1, a, [], wqty=q, byte_count=bc, data=data)
    if kind == 'coilword':
        r = pick_range(rng, unit, 'c', 1)
        if not r:
            return None
        return codec.req_write_coil(r[0], rng.choice([0x0001, 0x00FF, 0xFF01, 0xFFFF, 0x8000, 0x0100,
                                                      rng.randrange(1, 0xFF00)]))
    if kind == 'rw_one_bad':
        good = pick_range(rng, unit, 'h', 20)
        if not good:
            return None
        th = unit.table('h')
        hr = [(th.full[0], th.full[1] - th.full[0] + 1)] if getattr(th, 'full', None) is not None else runs_of(th.keys())
        s2, n2 = hr[-1]
        bad = (s2 + n2 - 1, 3)
        if rng.random() < 0.5:
            return codec.req_read_write(bad[0] & 0xFFFF, bad[1], good[0], [uniq.next() for _ in range(good[1])])
        return codec.req_read_write(good[0], good[1], bad[0] & 0xFFFF, [uniq.next() for _ in range(bad[1])])
    return None


OPAQUE_REQS = [
    bytes([7]), bytes([11]), bytes([12]), bytes([17]),
    bytes([8, 0, 0, 0x12, 0x34]), bytes([8, 0, 2, 0, 0]), bytes([8, 0, 0x0B, 0, 0]),
    bytes([43, 14, 1, 0]), bytes([43, 14, 2, 0]),
    bytes([24, 0, 4]),
    # diagnostics: restart communications, change ASCII delimiter, force listen only (never answered),
    # clear counters, the counter reads, clear overrun, Modbus Plus statistics get / clear
    bytes([8, 0, 1, 0, 0]), bytes([8, 0, 1, 0xFF, 0]), bytes([8, 0, 3, 0x0A, 0]), bytes([8, 0, 4, 0, 0]),
    bytes([8, 0, 10, 0, 0]), bytes([8, 0, 12, 0, 0]), bytes([8, 0, 13, 0, 0]), bytes([8, 0, 14, 0, 0]),
    bytes([8, 0, 15, 0, 0]), bytes([8, 0, 16, 0, 0]), bytes([8, 0, 17, 0, 0]), bytes([8, 0, 18, 0, 0]),
    bytes([8, 0, 20, 0, 0]), bytes([8, 0, 21, 0, 3]), bytes([8, 0, 21, 0, 4]),
    # file records (one and two sub-requests), device identification regular / extended / one object
    bytes([20, 7, 6, 0, 1, 0, 2, 0, 2]), bytes([20, 14, 6, 0, 4, 0, 1, 0, 2, 6, 0, 3, 0, 9, 0, 2]),
    bytes([21, 9, 6, 0, 4, 0, 7, 0, 1, 0x12, 0x34]), bytes([21, 11, 6, 0, 1, 0, 2, 0, 2, 1, 2, 3, 4]),
    bytes([43, 14, 3, 0]), bytes([43, 14, 4, 0]), bytes([43, 14, 4, 2]), bytes([43, 14, 1, 1]),
]


# ---------------------------------------------------------------- scenarios
def deepen(rng, profile, tier):
    """Thorough tier: half of the runs use longer histories (3x the requests per connection) and a third
    of them more connections (up to 6); the quick tier keeps the many-short-runs profile as it is."""
    if tier == 'quick':
        return profile
    prof = dict(profile)
    if rng.random() < 0.5:
        prof['max_reqs'] = 3 * profile.get('max_reqs', 8)
    if rng.random() < 0.33 and profile.get('max_conns', 1) > 1:
        prof['max_conns'] = 6
    return prof


def gen_scenario(rng, profile):
    """profile keys: kinds, invalid_rate, opaque_rate, unknown_unit_rate, multi_rate,
    broadcast_rate, max_conns, max_reqs, pipeline_rate, allow_tls, dsfault_rate, fcs"""
    kind = rng.choice(profile.get('kinds') or list(FRAMINGS_FOR))
    framings = [f for f in FRAMINGS_FOR[kind] if f != 'tls' or profile.get('allow_tls', True)]
    if profile.get('framings'):
        framings = [f for f in framings if f in profile['framings']] or framings
    framing = rng.choice(framings)
    single = rng.random() >= profile.get('multi_rate', 0.4) or framing == 'tls'
    uniq = Uniq(rng)
    units = {}
    if single:
        units['0'] = gen_layout(rng)
        hosted = [0]
    else:
        hosted = rng.choice([[1], [1, 2, 3], [0, 5], [255, 7], [247], [2, 9], [17, 18, 200],
                             sorted(rng.sample(range(1, 248), rng.randint(1, 4)))])
        for u in hosted:
            units[str(u)] = gen_layout(rng)
        if len(hosted) > 1 and rng.random() < 0.25:
            # every unit configured alike (the harness then builds their blocks from one template list object, as an
            # application with several identical devices does): their cells must be separate all the same
            for u in hosted[1:]:
                units[str(u)] = copy.deepcopy(units[str(hosted[0])])
        unit_order = None
        if len(hosted) > 1 and rng.random() < 0.4:
            # the application filled its slaves dict in some other order than ascending
            unit_order = list(hosted)
            rng.shuffle(unit_order)
    opts = {}
    if rng.random() < 0.5:
        opts['ignore_missing_slaves'] = rng.random() < 0.5
    bcast = False
    if framing == 'tls':
        pass                        # no unit id on the wire: every request is unit 0
    elif kind in HAS_BROADCAST and rng.random() < profile.get('broadcast_rate', 0.2):
        bcast = True
        opts['broadcast_enable'] = True
    elif rng.random() < 0.2:
        opts['broadcast_enable'] = False
    serial_timeout = rng.choice([0.02, 0.05, 0.2])
    if kind == 'sync_serial':
        opts['serial_timeout'] = serial_timeout
    if kind == 'sync_tcp' and rng.random() < profile.get('socket_timeout_rate', 0.0):
        # idle periods longer than this make the handler's recv() raise socket.timeout (pieces of one frame are
        # never further apart than 12.5 ms, so a frame in flight is not hit)
        opts['socket_timeout'] = rng.choice([0.05, 0.2])
    if profile.get('custom_rate') and rng.random() < profile['custom_rate']:
        opts['custom_fc'] = True        # the application registered its own function code 0x41 on this server
    models = {u: refdev.RefUnit(l) for u, l in units.items()}
    nconn = 1 if kind == 'sync_serial' else rng.randint(1, profile.get('max_conns', 3))
    conns = []
    t_sep = 2.5 * serial_timeout if kind == 'sync_serial' else rng.choice([0.001, 0.01, 0.1])
    clock = 0.0
    tid_mode = rng.choice(['seq', 'rand', 'edge'])
    nreq_total = 0
    seen_reqs = set()
    pipeline = profile.get('pipeline_rate', 0.0)
    dgram = kind in DGRAM_KINDS
    for c in range(nconn):
        reqs = []
        for i in range(rng.randint(1, profile.get('max_reqs', 8))):
            # which unit
            r = rng.random()
            if framing == 'tls':
                u = 0
            elif single:
                u = rng.choice([0, 1, 1, 7, 247, 255, rng.randrange(256)])
            elif r < profile.get('unknown_unit_rate', 0.15):
                cand = [x for x in (0, 1, 2, 4, 100, 248, 254, 255, rng.randrange(256)) if x not in hosted]
                u = rng.choice(cand)
            elif bcast and r < profile.get('unknown_unit_rate', 0.15) + 0.25:
                u = 0
            else:
                u = rng.choice(hosted)
            if single:
                m = models['0']
            elif str(u) in models:
                m = models[str(u)]
            else:
                m = models[str(rng.choice(hosted))]
            r = rng.random()
            tag = 'valid'
            pdu = None
            if bcast and u == 0:
                pdu = gen_valid(rng, m, uniq, fcs=[5, 6, 15, 16, 22, 6, 16])
                tag = 'broadcast'
            elif r < profile.get('invalid_rate', 0.1):
                pdu = gen_invalid(rng, m, uniq)
                tag = 'invalid'
            elif r < profile.get('invalid_rate', 0.1) + profile.get('opaque_rate', 0.05):
                pdu = rng.choice(OPAQUE_REQS)
                tag = 'opaque'
            if pdu is None and profile.get('custom_rate') and rng.random() < 0.05 and tag != 'broadcast':
                # an application-defined function code (0x41, two data bytes, echo): served only by a server on
                # which the application registered it (opts.custom_fc), exception 01 everywhere else
                pdu = bytes([0x41]) + uniq.next().to_bytes(2, 'big')
                tag = 'custom'
            if pdu is None:
                pdu = gen_valid(rng, m, uniq, fcs=profile.get('fcs'))
                tag = 'valid' if tag != 'broadcast' else tag
            if pdu is None:
                continue
            # requests are pairwise distinct within a scenario (on the wire: unit + PDU, and the tid
            # does not count because only MBAP carries one): executions are attributed to requests
            # by content, and identical requests on two connections would be interchangeable
            key = (None if framing == 'tls' else u, pdu)
            if key in seen_reqs:
                continue
            seen_reqs.add(key)
            if framing == 'rtu' and codec.request_len(pdu) == -1:
                continue        # an RTU receiver cannot size a frame of unknown function code
            if pdu == LISTEN_ONLY and not profile.get('listen_only'):
                continue        # listen-only mode: only where the property speaks of it (C09, C12)
            if framing == 'binary' and has_delim(codec.frame('binary', u, pdu)[1:-1]) \
                    and rng.random() < profile.get('binary_delim_avoid', 0.93):
                continue        # steer most runs away from the known binary-escaping finding
            if tid_mode == 'seq':
                tid = (c * 1000 + i + 1) & 0xFFFF
            elif tid_mode == 'rand':
                tid = rng.randrange(65536)
            else:
                tid = rng.choice([0, 1, 0xFFFF, 0xFFFE, 0x8000, 0x00FF, 0xFF00])
            join = (not dgram) and framing != "tls" and i > 0 and rng.random() < pipeline
            if not join:
                # same-connection requests are separated in time unless joined; requests of
                # different connections may coincide (then the scheduler interleaves them)
                clock = max(clock, (reqs[-1]['at'] + t_sep) if reqs else 0.0)
                clock += t_sep if rng.random() < 0.6 else 0.0
            item = {'u': u, 'tid': tid, 'pdu': pdu.hex(), 'at': round(clock, 6), 'join': join, 'tag': tag}
            if (not dgram) and framing != 'tls' and not join and rng.random() < profile.get('cut_rate', 0.0):
                # the frame arrives in pieces (TCP segmentation / serial read windows)
                flen = len(codec.frame(framing, u, pdu, tid=tid))
                if flen > 1:
                    item['cuts'] = sorted(set(rng.randrange(1, flen) for _ in range(rng.choice([1, 1, 2, 3]))))
                    item['cutgap'] = rng.choice([0.0, t_sep / 8.0]) if kind != 'sync_serial' else rng.choice([0.0, 1.5 * serial_timeout])
                    # the next frame of this connection starts strictly after the last piece
                    clock = round(clock + item['cutgap'] * len(item['cuts']) + t_sep / 4.0, 6)
            reqs.append(item)
            nreq_total += 1
            if dgram and tag != 'broadcast' and rng.random() < profile.get('dgram_dup_rate', 0.0):
                # the network duplicates the datagram: the server receives the request twice (at once, or a
                # little later) and owes a response to each copy
                clock = round(clock + rng.choice([0.0, t_sep / 10.0, t_sep]), 6)
                reqs.append(dict(item, at=clock, dup=True))
                nreq_total += 1
        conns.append(reqs)
    scn = {'harness': 'srv', 'frontend': kind, 'framing': framing, 'single': single, 'units': units,
           'opts': opts, 'conns': conns, 'cpu_step': rng.choice([2e-6, 1e-5, 5e-5]),
           'sched': {'tail_seed': rng.randrange(1 << 30)},
           'settle': max(1.0, 4 * serial_timeout)}
    if not single and unit_order:
        scn['unit_order'] = unit_order
    if rng.random() < profile.get('dsfault_rate', 0.0):
        scn['dsfault'] = {'unit': rng.choice(sorted(units)), 'op': rng.choice(['validate', 'get', 'set', 'get', 'set']),
                          'at': rng.randint(1, 4)}
    if kind in STREAM_KINDS and kind != 'sync_serial' and len(conns) >= 2 and rng.random() < profile.get('peer_close_rate', 0.0):
        add_peer_close(rng, scn)
    return scn


def add_peer_close(rng, scn, conn=None):
    """The peer of one connection goes away (orderly close or reset) at an arbitrary instant of that connection's
    history - between two requests, right after one, or between the pieces of a frame - while the other
    connections carry on."""
    conns = scn['conns']
    c = rng.randrange(len(conns)) if conn is None else conn
    times = []
    for r in conns[c]:
        times.append(r['at'])
        for j in range(len(r.get('cuts') or [])):
            times.append(r['at'] + (j + 1) * r.get('cutgap', 0.0))
    if not times:
        return
    base = rng.choice(times)
    at = round(max(0.0, base + rng.choice([-0.0004, 0.00001, 0.00001, 0.0004, 0.004])), 9)
    scn.setdefault('peer_closes', []).append({'c': c, 'at': at, 'how': rng.choice(['eof', 'reset', 'reset'])})


def derive(scn):
    """-> harness.srv scenario with explicit deliveries (pure function of scn)."""
    framing = scn['framing']
    events = []
    for c, reqs in enumerate(scn['conns']):
        cur = None
        for i, r in enumerate(reqs):
            if r.get('raw') is not None:
                fr = bytes.fromhex(r['raw'])
            else:
                fr = codec.frame(framing, r['u'], bytes.fromhex(r['pdu']), tid=r['tid'], pid=r.get('pid', 0))
            if r.get('join') and cur is not None:
                cur['data'] += fr
                cur['reqs'].append(i)
                continue
            cuts = sorted(set(x for x in (r.get('cuts') or []) if 0 < x < len(fr)))
            if not cuts:
                cur = {'t': r['at'], 'c': c, 'i': i, 'data': fr, 'reqs': [i]}
                events.append(cur)
            else:
                pos = 0
                gap = r.get('cutgap', 0.0)
                for j, x in enumerate(cuts + [len(fr)]):
                    cur = {'t': r['at'] + j * gap, 'c': c, 'i': i, 'data': fr[pos:x], 'reqs': [i]}
                    events.append(cur)
                    pos = x
    for n, e in enumerate(events):
        e['t'] = round(e['t'], 9)
        e['n'] = n                  # generation order: pieces of one frame stay in order
    events.sort(key=lambda e: (e['t'], e['c'], e['i'], e['n']))
    dels = []
    prev = 0.0
    for e in events:
        dels.append({'c': e['c'], 'hex': e['data'].hex(), 'gap': round(e['t'] - prev, 9), 'reqs': e['reqs']})
        prev = e['t']
    h = {k: v for k, v in scn.items() if k != 'conns'}
    h['conns'] = len(scn['conns'])
    h['deliveries'] = dels
    h['closes'] = scn.get('closes')
    return h


# ------------------------------------------------------------------ analysis
def split_output(framing, chunks, stream):
    """Server output -> list of (unit, tid, pid, pdu) or raises codec.Malformed."""
    frames = []
    if stream:
        data = b''.join(chunks)
        if framing == 'tls':
            # bare PDUs: each write is one PDU
            return [(None, None, None, bytes(c)) for c in chunks]
        for fr in codec.split_stream(framing, data, 'rsp'):
            frames.append(codec.parse_frame(framing, fr))
    else:
        for c in chunks:
            frames.append(codec.parse_frame(framing, c))
    return frames


class Analysis(object):
    """Lock-step comparison of one H-SRV run with the reference model."""

    def __init__(self, scn, res, skip_unmatched_output=False):
        self.scn = scn
        self.res = res
        self.skip_unmatched_output = skip_unmatched_output
        self.v = []                 # (class, detail dict, message)
        self.stats = {}
        self.run()

    def add(self, cls, msg, **detail):
        self.v.append((cls, detail, msg))

    def run(self):
        scn, res = self.scn, self.res
        kind, framing = scn['frontend'], scn['framing']
        single = scn.get('single', True)
        opts = scn.get('opts') or {}
        bcast = bool(opts.get('broadcast_enable')) and kind in HAS_BROADCAST
        ignore = bool(opts.get('ignore_missing_slaves'))
        hosted = sorted(int(u) for u in scn['units'])
        model = res.model
        stream = kind in STREAM_KINDS
        # ---- expectations per request, in per-connection order
        pend = []                   # per conn: list of dicts
        for c, reqs in enumerate(scn['conns']):
            lst = []
            for i, r in enumerate(reqs):
                if r.get('raw') is not None:
                    continue        # hostile bytes: no expectation attached
                lst.append({'c': c, 'i': len(lst), 'u': r['u'], 'tid': r['tid'], 'pdu': bytes.fromhex(r['pdu']),
                            'tag': r.get('tag'), 'execs': [], 'expect': None})
            pend.append(lst)
        hostile = set(scn.get('hostile') or [])
        self.unsolicited = []
        # when did the (last piece of the) frame of each request reach the server?
        try:
            per_conn = {}
            for d in derive(scn)['deliveries']:
                per_conn.setdefault(d['c'], []).append(d['reqs'])
            raw_index = {}
            for c, reqs in enumerate(scn['conns']):
                n = 0
                for i, r in enumerate(reqs):
                    if r.get('raw') is None:
                        raw_index[(c, i)] = n
                        n += 1
            for c, groups in per_conn.items():
                seqs = [sq for (sq, _) in res.inputs.get(c, [])]
                for g, sq in zip(groups, seqs):
                    for i in g:
                        n = raw_index.get((c, i))
                        if n is not None and c < len(pend) and n < len(pend[c]):
                            pend[c][n]['delivered_seq'] = sq
        except Exception:
            pass
        # a connection whose peer went away: what it sent within 50 ms before that instant, or would have
        # sent afterwards, creates no obligation (the answer may be lost with the connection)
        self.peer_closed = {}
        for pc in scn.get('peer_closes') or []:
            self.peer_closed[pc['c']] = min(pc['at'], self.peer_closed.get(pc['c'], 1e18))
        for c, reqs in enumerate(scn['conns']):
            if c not in self.peer_closed:
                continue
            n = 0
            for r in reqs:
                if r.get('raw') is not None:
                    continue
                t_last = r['at'] + len(r.get('cuts') or []) * r.get('cutgap', 0.0)
                if t_last >= self.peer_closed[c] - 0.05 and n < len(pend[c]):
                    pend[c][n]['after_drop'] = True
                    pend[c][n]['peer_gone'] = True
                n += 1
        ptr = [0] * len(pend)
        flat = [q for lst in pend for q in lst]
        # ---- walk executions in the order they happened
        prev_dump = res.initial
        listen_only = False
        for e in res.execs:
            # find the request this execution belongs to
            owner = None

            def fits(q):
                if q['pdu'] != e['pdu']:
                    return False
                if q.get('delivered_seq') is not None and q['delivered_seq'] > e['seq']:
                    return False        # not even received yet when this execution happened
                if framing != 'tls' and e['unit_id'] is not None and q['u'] != e['unit_id']:
                    return False
                if framing == 'tcp' and q['tid'] != e['tid']:
                    return False
                if bcast and q['u'] == 0 and e['ctx_unit'] in [x['ctx_unit'] for x in q['execs']]:
                    return False
                return True
            # pass 1: the next request of some connection; pass 2: a later one (earlier ones were skipped)
            for deep in (False, True):
                for lst in pend:
                    for q in lst:
                        if q.get('done'):
                            continue
                        if fits(q):
                            owner = q
                            break
                        if not deep and stream:
                            break
                    if owner is not None:
                        break
                if owner is not None:
                    break
            for lst in pend:
                if owner is None or owner not in lst:
                    continue
                if owner is not None:
                    if stream:
                        # a stream preserves order: earlier requests of this connection that
                        # were never executed are now known to have been skipped
                        for q0 in lst:
                            if q0 is owner:
                                break
                            if not q0.get('done') and not q0['execs']:
                                q0['done'] = True
                                q0['skipped'] = True
                    break
            if owner is None:
                after = e.get('after', prev_dump)
                if hostile:
                    # executed from hostile bytes: legitimate only if those bytes contain a
                    # valid frame for this PDU (judged by the caller) and the effect is the model's
                    m = model.get(e['ctx_unit'])
                    acc = None
                    if m is not None:
                        self._resync(model, prev_dump)
                        acc, _ = m.execute(e['pdu'])
                    want = {u: mm.dump() for u, mm in model.items()}
                    self.unsolicited.append({'exec': e, 'changed': after != prev_dump,
                                             'effect_ok': (after == want) if acc is not None else (after == prev_dump),
                                             'modelled': acc is not None})
                else:
                    sent = sum(1 for q in flat if q['pdu'] == e['pdu'] and (framing == 'tls' or e['unit_id'] is None or q['u'] == e['unit_id']))
                    done_same = sum(1 for x in res.execs if x['pdu'] == e['pdu'] and x['unit_id'] == e['unit_id'] and x['seq'] <= e['seq'])
                    per_req = len(hosted) if (bcast and e['unit_id'] == 0) else 1
                    if done_same > sent * per_req:
                        # executed more often than it was sent (identical requests on several
                        # connections are interchangeable, so only the count is judged)
                        self.add('exec-unsolicited', 'executed a request that no connection sent (or more often than sent): pdu=%s unit=%s tid=%s'
                                 % (e['pdu'].hex(), e['unit_id'], e['tid']), fc=e['pdu'][0] if e['pdu'] else None)
                prev_dump = after
                self._resync(model, prev_dump)
                continue
            owner['execs'].append(e)
            is_b = bcast and owner['u'] == 0
            if not is_b or len(owner['execs']) == len(hosted):
                owner['done'] = True
            # which unit's datastore should this act on?
            if single:
                want_unit = sorted(scn['units'])[0]
            elif is_b:
                want_unit = e['ctx_unit']
            else:
                want_unit = str(owner['u'])
            if e['ctx_unit'] != want_unit:
                self.add('wrong-unit', 'request for unit %s executed against unit %s' % (owner['u'], e['ctx_unit']),
                         fc=owner['pdu'][0])
            m = model.get(e['ctx_unit'])
            before_model = {u: mm.copy_state() for u, mm in model.items()}
            acc, applied = (None, False)
            if m is not None:
                acc, applied = m.execute(owner['pdu'])
            if owner['pdu'][:1] == b'\x41' and len(owner['pdu']) == 3 and opts.get('custom_fc'):
                acc, applied = {bytes(owner['pdu'])}, False     # registered application function: echo
            nxt = self._next_seq(e)
            dsfault_hit = any(a[2] == 'FAULT' and e['seq'] < a[0] < nxt for a in res.access)
            owner['acc'] = acc
            owner['dsfault'] = owner.get('dsfault') or dsfault_hit
            owner['rsp_exc'] = e.get('rsp_exc') if e.get('rsp_cls') == 'ExceptionResponse' else None
            owner['raised'] = e.get('raised')
            after = e.get('after')
            if dsfault_hit:
                # the model cannot know what a failing datastore did; resynchronise
                owner['state_changed'] = (after != prev_dump)
                owner['prev_dump'] = prev_dump
                self._resync(model, after)
            elif acc is None:
                # opaque / malformed: no state change expected from a non-data-access request
                for u, mm in model.items():
                    mm.restore(before_model[u])
                if after != prev_dump:
                    owner['state_changed'] = True
                    self.add('state-changed-by-nonwrite', 'tables changed while executing pdu=%s' % owner['pdu'].hex(),
                             fc=owner['pdu'][0])
                    self._resync(model, after)
            else:
                want = {u: mm.dump() for u, mm in model.items()}
                if after != want:
                    diff = self._diff(after, want)
                    is_exc = all(p[0] & 0x80 for p in acc)
                    cls = 'state-changed-on-rejected' if is_exc else 'state-mismatch'
                    self.add(cls, 'after pdu=%s (unit %s): datastore differs from the data model: %s'
                             % (owner['pdu'].hex(), e['ctx_unit'], diff), fc=owner['pdu'][0],
                             tag=owner['tag'])
                    self._resync(model, after)
            prev_dump = after if after is not None else prev_dump
        # ---- requests that follow the point where the server side ended a connection are
        # not judged: whatever is missing there is a consequence of the drop, which is
        # itself reported once (response-missing with dropped=True, or by C12)
        for c, lst in enumerate(pend):
            if stream and res.server_closed.get(c):
                cut = False
                for q in lst:
                    if cut:
                        q['after_drop'] = True
                    elif not q['execs']:
                        cut = True
        # ---- expected responses
        for q in flat:
            u = q['u']
            fc = q['pdu'][0]
            if bcast and u == 0:
                q['respond'] = 'none'
                if len(q['execs']) != len(hosted) and not q.get('after_drop'):
                    self.add('broadcast-count', 'broadcast write executed on %d of %d hosted units'
                             % (len(q['execs']), len(hosted)), fc=fc)
                continue
            is_hosted = single or (u in hosted)
            if not is_hosted:
                if q['execs']:
                    self.add('absent-unit-executed', 'request for absent unit %d was executed' % u, fc=fc)
                q['respond'] = 'none' if ignore else 'gateway-or-none'
                continue
            if q['pdu'] == bytes([8, 0, 4, 0, 0]):
                q['respond'] = 'none'
                continue
            q['respond'] = 'one'
            if not q['execs']:
                q['missing_exec'] = True
        # ---- outputs
        for c, lst in enumerate(pend):
            if c in hostile:
                continue
            chunks = res.outputs.get(c, [])
            try:
                frames = split_output(framing, chunks, stream)
            except codec.Malformed as ex:
                self.add('output-garbled', 'bytes written to connection %d do not parse as response frames: %s (%s)'
                         % (c, ex, b''.join(chunks).hex()[:120]))
                continue
            if not stream:
                left = list(frames)
                for q in lst:
                    fc = q['pdu'][0]
                    hit = next((fr for fr in left if self._answers(framing, q, fr)), None)
                    if q['respond'] == 'none':
                        continue
                    if hit is not None:
                        left.remove(hit)
                    if q['respond'] == 'gateway-or-none':
                        if hit is not None and not (hit[3][0] == (fc | 0x80) and len(hit[3]) == 2 and hit[3][1] in (0x0A, 0x0B)):
                            self.add('absent-unit-answered', 'request for absent unit %d answered with %s'
                                     % (q['u'], hit[3].hex()), fc=fc)
                        continue
                    if hit is None:
                        if any(x[0] == 'response-missing' and x[1].get('peer') == c for x in self.v):
                            continue
                        self.add('response-missing', 'no response datagram for request #%d of peer %d (unit %d, tid %d, pdu %s)'
                                 % (q['i'], c, q['u'], q['tid'], q['pdu'].hex()[:40]), fc=fc, tag=q['tag'],
                                 stage=self._stage(q), dropped=False, peer=c)
                        continue
                    q['got'] = hit[3]
                    self._judge_content(q, hit[3])
                if left:
                    self.add('response-extra', '%d datagram(s) to peer %d that answer no request: %s'
                             % (len(left), c, left[0][3].hex()[:60]))
                continue
            fi = 0
            missing_reported = False
            for q in lst:
                if q.get('after_drop'):
                    continue
                fc = q['pdu'][0]
                if self.skip_unmatched_output and q['respond'] == 'one':
                    # shared line: frames answering the hostile bytes precede; search forward
                    j = fi
                    while j < len(frames) and not self._answers(framing, q, frames[j]):
                        j += 1
                    if j < len(frames):
                        fi = j
                fr = frames[fi] if fi < len(frames) else None
                match = fr is not None and self._answers(framing, q, fr)
                if match and q['respond'] == 'one' and not q['execs']:
                    # a request that was never executed (lost by the framer) followed by executed
                    # ones: when every remaining frame is needed to answer an executed request,
                    # the frame at hand answers one of those, not the lost request (whose
                    # response is then reported missing) - else a lost request "steals" the
                    # answer of its successor and the successor looks wrongly answered
                    rest = [q2 for q2 in lst[q['i'] + 1:] if q2['respond'] == 'one' and q2['execs']
                            and not q2.get('after_drop')]
                    if rest and len(frames) - fi <= len(rest):
                        match = False
                if q['respond'] == 'none':
                    if match and not self._could_answer_later(framing, lst, q, fr):
                        self.add('response-unexpected', 'response sent for a %s request (unit %d)'
                                 % (q['tag'], q['u']), fc=fc, tag=q['tag'])
                        fi += 1
                    continue
                if q['respond'] == 'gateway-or-none':
                    if match:
                        fi += 1
                        pdu = fr[3]
                        if not (pdu[0] == (fc | 0x80) and len(pdu) == 2 and pdu[1] in (0x0A, 0x0B)):
                            self.add('absent-unit-answered', 'request for absent unit %d answered with %s'
                                     % (q['u'], pdu.hex()), fc=fc)
                    continue
                # exactly one response expected
                if not match:
                    if missing_reported:
                        continue        # later gaps on the same connection are consequences of the first
                    missing_reported = True
                    self.add('response-missing', 'no response for request #%d on connection %d (unit %d, tid %d, pdu %s); next frame: %s'
                             % (q['i'], c, q['u'], q['tid'], q['pdu'].hex()[:40], fr and fr[3].hex()[:40]),
                             fc=fc, tag=q['tag'], stage=self._stage(q), dropped=bool(res.server_closed.get(c)))
                    continue
                fi += 1
                q['got'] = fr[3]
                if framing == 'tcp' and fr[2] != 0:
                    self.add('pid-nonzero', 'response protocol id %d' % fr[2], fc=fc)
                self._judge_content(q, fr[3])
            if fi < len(frames) and not self.skip_unmatched_output and c not in self.peer_closed:
                self.add('response-extra', '%d frame(s) on connection %d that answer no request: %s'
                         % (len(frames) - fi, c, frames[fi][3].hex()[:60]))
        if res.stray:
            self.add('response-stray', 'datagram sent to an address that sent nothing: %r' % (res.stray[:1],))

    def _stage(self, q):
        if q['execs']:
            return 'executed'
        ds = [d for d in self.res.decodes if d['pdu'] == q['pdu']]
        if not ds:
            return 'not-extracted'      # the framer never handed this PDU to the decoder
        if any(not d['ok'] for d in ds):
            return 'decode-failed'
        return 'decoded-not-executed'

    def _next_seq(self, e):
        ex = self.res.execs
        i = ex.index(e)
        return ex[i + 1]['seq'] if i + 1 < len(ex) else 1 << 60

    @staticmethod
    def _resync(model, dump):
        if dump is None:
            return
        for u, mm in model.items():
            for t in ('c', 'd', 'h', 'i'):
                if mm.alias[t] == t:
                    mm.store[t].cells = dict(dump[u][t])

    @staticmethod
    def _diff(got, want):
        out = []
        for u in sorted(want):
            for t in ('c', 'd', 'h', 'i'):
                g, w = got[u][t], want[u][t]
                if g != w:
                    keys = sorted(set(g) | set(w))
                    bad = [(a, g.get(a), w.get(a)) for a in keys if g.get(a) != w.get(a)][:4]
                    out.append('unit %s table %s: (addr, got, want) %s' % (u, t, bad))
        return '; '.join(out)[:300]

    @staticmethod
    def _answers(framing, q, fr):
        unit, tid, pid, pdu = fr
        if not pdu:
            return False
        fc = q['pdu'][0]
        if pdu[0] not in (fc, fc | 0x80):
            return False
        if framing == 'tcp' and tid != q['tid']:
            return False
        if framing != 'tls' and unit != q['u']:
            return False
        return True

    def _could_answer_later(self, framing, lst, q, fr):
        for q2 in lst[q['i'] + 1:]:
            if q2['respond'] != 'none' and self._answers(framing, q2, fr):
                return True
        return False

    def _judge_content(self, q, got):
        fc = q['pdu'][0]
        acc = q.get('acc')
        if q.get('dsfault'):
            want = codec.rsp_exception(fc, refdev.SLAVE_FAILURE)
            if got != want:
                # a fault injected into a call whose failure pymodbus never sees is not expected here
                self.add('dsfault-wrong-answer', 'datastore raised during pdu=%s but the answer was %s, not exception 04'
                         % (q['pdu'].hex()[:40], got.hex()[:40]), fc=fc)
            elif q.get('state_changed'):
                self.add('state-changed-on-rejected', 'exception 04 returned for pdu=%s although cells changed'
                         % q['pdu'].hex()[:40], fc=fc, tag='dsfault')
            return
        if q.get('missing_exec'):
            # answered without executing: only legitimate for decoder-level rejections
            if codec.request_len(q['pdu']) == -1:
                if got != codec.rsp_exception(fc, refdev.ILLEGAL_FUNCTION):
                    self.add('wrong-exception', 'unknown function code %d answered with %s' % (fc, got.hex()), fc=fc,
                             want='01', tag=q['tag'])
            return
        if acc is None:
            return
        if got not in acc:
            is_exc_want = all(p[0] & 0x80 for p in acc)
            if is_exc_want:
                self.add('wrong-exception', 'pdu=%s: answered %s, the property prescribes %s'
                         % (q['pdu'].hex()[:40], got.hex()[:40], ' or '.join(sorted(p.hex() for p in acc))),
                         fc=fc, want='/'.join(sorted('%02x' % p[1] for p in acc)),
                         got=('%02x' % got[1]) if got[0] & 0x80 and len(got) > 1 else 'normal', tag=q['tag'])
            else:
                self.add('wrong-response', 'pdu=%s: answered %s, the data model gives %s'
                         % (q['pdu'].hex()[:40], got.hex()[:60], sorted(p.hex()[:60] for p in acc)), fc=fc,
                         tag=q['tag'])


def debug(scn):
    res = execute_srv(scn, keep_log=True)
    for rec in res.log:
        if rec[3] in ('decode', 'execute', 'deliver', 'write', 'aio-write', 'tw-write', 'dgram-send', 'escaped',
                      'tw-dataReceived-raised', 'tw-datagramReceived-raised', 'event', 'recv', 'read', 'aio-sendto', 'dsfault'):
            print('  ', rec[0], '%.4f' % rec[1], rec[2], rec[3], [x.hex() if isinstance(x, bytes) else x for x in rec[4]])
    print('errors', res.errors, 'dropped', res.dropped, 'tw_raised', res.tw_raised[:2])


def execute_srv(scn, keep_log=False):
    h = derive(scn)
    res = srv.run(h, keep_log=keep_log)
    return res


def base_outcome(scn, res):
    faults = {}
    if res.counters.get('dsfault_fired'):
        faults['datastore_raise'] = res.counters['dsfault_fired']
    # what was actually injected in this run (fired, not merely configured)
    for k_, name in (('peer_eof', 'peer_closed_connection'), ('peer_reset', 'peer_reset_connection')):
        if res.counters.get(k_):
            faults[name] = res.counters[k_]
    n_cut = sum(1 for reqs in scn['conns'] for r in reqs if r.get('cuts'))
    if n_cut:
        faults['frame_delivered_in_pieces'] = n_cut
    n_join = sum(1 for reqs in scn['conns'] for r in reqs if r.get('join'))
    if n_join:
        faults['frames_coalesced_in_one_read'] = n_join
    n_dup = sum(1 for reqs in scn['conns'] for r in reqs if r.get('dup'))
    if n_dup:
        faults['datagram_duplicated'] = n_dup
    n_raw = sum(1 for reqs in scn['conns'] for r in reqs if r.get('raw') is not None)
    if n_raw:
        faults['hostile_chunk'] = n_raw
    probes = {
        'tw_conn_dropped_on_exception': res.counters.get('tw_conn_dropped_on_exception', 0),
    }
    return {'violations': [], 'inconclusive': False, 'nontrivial': len(res.execs) >= 1,
            'digest': res.digest, 'shape': res.shape + ':' + scn['frontend'] + ':' + scn['framing'],
            'vtime': res.vtime, 'steps': res.steps, 'faults': faults, 'probes': probes,
            'cell': '%s/%s/%s' % (scn['frontend'], scn['framing'], 'single' if scn.get('single', True) else 'multi')}


def harness_violations(scn, res):
    """escaped exceptions -> list of (class, detail, msg); used by C12 and, as a
    sanity signal, reported by every server check as class 'escaped'."""
    out = []
    for where, text in res.errors:
        out.append(('escaped', {'where': where.split(':')[0], 'exc': text.split(':')[0]},
                    'exception escaped %s: %s' % (where, text)))
    return out


# ----------------------------------------------------------------- shrinking
def shrink_steps(scn):
    # 1. drop whole connections
    if len(scn['conns']) > 1:
        for i in range(len(scn['conns'])):
            s = copy.deepcopy(scn)
            del s['conns'][i]
            if s.get('peer_closes'):
                # connection indices shift
                s['peer_closes'] = [dict(pc, c=pc['c'] - (1 if pc['c'] > i else 0)) for pc in s['peer_closes'] if pc['c'] != i]
                if not s['peer_closes']:
                    s.pop('peer_closes')
            yield s
    # 2. drop requests
    for c, reqs in enumerate(scn['conns']):
        for cand in sh.without_chunks(reqs):
            if not cand and len(scn['conns']) == 1:
                continue
            s = copy.deepcopy(scn)
            s['conns'][c] = cand
            yield s
    # 3. drop faults / options
    for key in ('dsfault', 'closes', 'peer_closes'):
        if scn.get(key):
            s = copy.deepcopy(scn)
            s.pop(key)
            yield s
    for key in list((scn.get('opts') or {}).keys()):
        if key == 'serial_timeout':
            continue
        s = copy.deepcopy(scn)
        s['opts'].pop(key)
        yield s
    # 4. simplify delivery
    for c, reqs in enumerate(scn['conns']):
        for i, r in enumerate(reqs):
            if r.get('join'):
                s = copy.deepcopy(scn)
                s['conns'][c][i]['join'] = False
                yield s
            if r.get('cuts'):
                s = copy.deepcopy(scn)
                s['conns'][c][i]['cuts'] = []
                yield s
                if len(r['cuts']) > 1:
                    for j in range(len(r['cuts'])):
                        s = copy.deepcopy(scn)
                        del s['conns'][c][i]['cuts'][j]
                        yield s
            if r.get('tid') not in (0, 1):
                s = copy.deepcopy(scn)
                s['conns'][c][i]['tid'] = 1
                yield s
    # 5. simpler layouts: unshare, shrink to defaults is too invasive; drop extra units
    if not scn.get('single', True) and len(scn['units']) > 1:
        used = set(str(r['u']) for reqs in scn['conns'] for r in reqs)
        for u in sorted(scn['units']):
            if u not in used:
                s = copy.deepcopy(scn)
                del s['units'][u]
                yield s
    if scn.get('sched', {}).get('choices'):
        s = copy.deepcopy(scn)
        s['sched']['choices'] = []
        yield s
