"""C16 - asynchronous (Twisted) client matches pipelined replies by transaction id."""
import copy
import itertools

from harness import twc
from engine import shrink as sh

ID = 'C16'
TITLE = 'Asynchronous client matches pipelined replies by transaction id'
QUICK_S = 35
THOROUGH_S = 600
RULE = ('histories on the real Twisted ModbusClientProtocol (TCP, dict-keyed) and ModbusSerClientProtocol (RTU, FIFO) with a '
        'fake transport: up to N outstanding requests (quick N<=8, thorough N<=300 plus wrap batches of 65 540 requests with '
        '<=300 outstanding), replies in every permutation for N<=5 (systematic) and random permutations above, delivered '
        'frame-aligned or coalesced, injected unsolicited and duplicate replies, connectionLost at every position, requests '
        'after the loss, half of the runs with mixed request kinds (FC 1, 3, 6) and exception replies; the tid counter starts near 0xFFFF in the quick tier. Oracle: a model of the pending set replayed '
        'over the same history: each deferred fires exactly once with the reply whose tid was written on the wire for it '
        '(unique values), outstanding tids pairwise distinct, unsolicited/duplicate replies fire nothing, after the loss '
        'every pending deferred has failed with ConnectionException as does every later request. Non-trivial = >=2 requests '
        'were outstanding together or a fault event occurred; distinct = distinct event log')
ASSUMPTIONS = ['Twisted Deferred callbacks run synchronously inside dataReceived/connectionLost (no reactor needed)',
               'the serial variant gets its replies in request order (a serial line has one outstanding exchange per slave)']
STUBS = {
    'real': ['pymodbus.client.asynchronous.twisted ModbusClientProtocol / ModbusSerClientProtocol (execute, dataReceived, _handleResponse, _buildResponse, connectionLost)',
             'pymodbus.transaction DictTransactionManager / FifoTransactionManager / getNextTID', 'pymodbus.framer socket / rtu framers, ClientDecoder',
             'twisted.internet.defer.Deferred, twisted.python.failure.Failure'],
    'stub': ['Twisted reactor and transport (fake transport records writes; the harness calls makeConnection / dataReceived / connectionLost)',
             'the server (reference codec builds the replies)'],
}


def mk(variant, events, tid_start=None):
    s = {'property': ID, 'harness': 'twc', 'variant': variant, 'events': events}
    if tid_start is not None:
        s['tid_start'] = tid_start
    return s


def generate(rng, tier, index):
    variant = rng.choice(['tcp', 'tcp', 'serial'])
    maxn = 8 if tier == 'quick' else rng.choice([8, 30, 300])
    tid_start = rng.choice([0, 0, 0xFFF0, 0xFFFA, 0xFFFE, 0xFFFF, rng.randrange(65536)])
    events = []
    pending = []
    answered = []
    nid = 0
    lost = False
    closed = False
    steps = rng.randint(3, 40 if tier == 'quick' else 120)
    mixed = rng.random() < 0.5          # swarm: half of the runs mix request kinds and exception replies
    unsol_base = (tid_start + 20000) & 0xFFFF
    for _ in range(steps):
        r = rng.random()
        if r < 0.45 and len(pending) < maxn:
            nid += 1
            ev = {'e': 'req', 'id': nid, 'count': rng.choice([1, 2, 5, 20]), 'addr': rng.randrange(0, 60000)}
            if mixed:
                ev['kind'] = rng.choice(['rhr', 'rhr', 'rc', 'wr'])
                if rng.random() < 0.2:
                    ev['exc'] = rng.choice([1, 2, 3, 4, 5, 6, 7, 8, 0x0A, 0x0B])      # every exception code the specification defines
            if rng.random() < 0.15:
                ev['reissue'] = {'id': 100000 + nid, 'count': 1, 'addr': rng.randrange(0, 60000)}
            events.append(ev)
            if not lost and not closed:
                pending.append(nid)
        elif r < 0.8 and pending and not lost:
            if variant == 'serial':
                k = rng.randint(1, min(3, len(pending)))
                ids = pending[:k]
                coalesce = False if rng.random() < 0.85 else True
            else:
                k = rng.randint(1, min(4, len(pending)))
                ids = rng.sample(pending, k)
                coalesce = rng.random() < 0.4
            for i in ids:
                pending.remove(i)
                answered.append(i)
            events.append({'e': 'reply', 'ids': ids, 'coalesce': coalesce})
        elif r < 0.84 and pending and not lost:
            # one stream segment carrying stray frames next to genuine replies, possibly cut
            parts = []
            take = pending[:rng.randint(1, min(3, len(pending)))] if variant == 'serial' else \
                rng.sample(pending, rng.randint(1, min(3, len(pending))))
            for i in take:
                if rng.random() < 0.5 and variant == 'tcp':
                    parts.append({'kind': 'unsolicited', 'tid': (unsol_base + rng.randrange(1000)) & 0xFFFF})
                if rng.random() < 0.3 and answered and variant == 'tcp':
                    parts.append({'kind': 'dup', 'id': rng.choice(answered)})
                parts.append({'kind': 'reply', 'id': i})
                pending.remove(i)
                answered.append(i)
            ev = {'e': 'rx', 'parts': parts}
            if rng.random() < 0.4:
                ev['cuts'] = sorted(set(rng.randrange(1, 12 * len(parts) + 4) for _ in range(rng.randint(1, 3))))
            events.append(ev)
        elif r < 0.87:
            events.append({'e': 'unsolicited', 'tid': (unsol_base + rng.randrange(1000)) & 0xFFFF})
        elif r < 0.93 and answered:
            events.append({'e': 'dup', 'id': rng.choice(answered)})
        elif r < 0.96 and not lost:
            events.append({'e': 'lose'})
            lost = True
            pending = []
        elif r < 0.985 and not lost and not closed:
            # the application closes the client while requests may be outstanding; the transport confirms later
            events.append({'e': 'close'})
            closed = True
    if closed and not lost:
        events.append({'e': 'lose'})
    return mk(variant, events, tid_start)


def systematic(tier):
    nmax = 4 if tier == 'quick' else 5
    for variant in ('tcp', 'serial'):
        for n in range(1, nmax + 1):
            reqs = [{'e': 'req', 'id': i + 1, 'count': 1 + i, 'addr': 10 * i} for i in range(n)]
            perms = list(itertools.permutations(range(1, n + 1))) if variant == 'tcp' else [tuple(range(1, n + 1))]
            for p in perms:
                for coalesce in (False, True):
                    if coalesce:
                        yield mk(variant, reqs + [{'e': 'reply', 'ids': list(p), 'coalesce': True}], 0xFFFE)
                    else:
                        yield mk(variant, reqs + [{'e': 'reply', 'ids': [i], 'coalesce': False} for i in p], 0xFFFE)
            # connection loss at every position of a fixed history, requests afterwards
            hist = reqs + [{'e': 'reply', 'ids': [i + 1], 'coalesce': False} for i in range(n)]
            for pos in range(len(hist) + 1):
                ev = hist[:pos] + [{'e': 'lose'}] + hist[pos:] + [{'e': 'req', 'id': 99, 'count': 1, 'addr': 5}]
                yield mk(variant, ev, 3)
            # unsolicited and duplicate at every position
            for pos in range(len(hist) + 1):
                yield mk(variant, hist[:pos] + [{'e': 'unsolicited', 'tid': 0x4321}] + hist[pos:], 7)
            for pos in range(n + 1, len(hist) + 1):
                yield mk(variant, hist[:pos] + [{'e': 'dup', 'id': 1}] + hist[pos:], 7)
    if tier != 'quick':
        # wrap batch: 65 540 requests in total, <= 300 outstanding, replies in rotating order
        for variant in ('tcp',):
            ev = []
            pend = []
            for i in range(1, 65541):
                ev.append({'e': 'req', 'id': i, 'count': 1, 'addr': i & 0xFFFF})
                pend.append(i)
                if len(pend) >= 300:
                    take = pend[100:200]
                    pend = pend[:100] + pend[200:]
                    ev.append({'e': 'reply', 'ids': take, 'coalesce': False})
            ev.append({'e': 'reply', 'ids': pend, 'coalesce': False})
            yield mk(variant, ev, 100)


def execute(scn):
    res = twc.run(scn)
    variant = scn['variant']
    out = {'violations': [], 'inconclusive': False, 'nontrivial': False, 'digest': res.digest, 'shape': res.digest,
           'vtime': 0.0, 'steps': len(scn['events']), 'faults': {}, 'probes': {}, 'cell': variant}
    sig0 = {'property': ID, 'variant': variant}

    def add(cls, msg, **kv):
        out['violations'].append({'sig': dict(sig0, **dict({'class': cls}, **kv)), 'msg': msg})
    # replay the history on the model
    pending = []                # rids in issue order
    reissue_of = {}
    expect = {}                 # rid -> {'cb': n, 'eb': n}
    lost = False
    closed_m = False
    max_out = 0
    context_flags = set()
    for ev in scn['events']:
        e = ev['e']
        if e == 'close':
            context_flags.add('close')
            closed_m = True
            continue
        if e == 'req':
            rid = ev['id']
            expect[rid] = {'cb': 0, 'eb': 0}
            if lost or closed_m:
                expect[rid]['eb'] = 1
                expect[rid]['after_loss'] = True
                if ev.get('reissue'):
                    expect[ev['reissue']['id']] = {'cb': 0, 'eb': 1, 'after_loss': True}
            else:
                if ev.get('reissue'):
                    reissue_of[rid] = ev['reissue']['id']
                # outstanding tids pairwise distinct
                rec = res.reqs.get(rid)
                if rec is not None and variant == 'tcp':
                    tids = [res.reqs[p].get('tid') for p in pending if p in res.reqs]
                    if rec.get('tid') in tids:
                        add('tid-collision', 'request %d was sent with tid %s while another outstanding request carries it'
                            % (rid, rec.get('tid')))
                pending.append(rid)
                max_out = max(max_out, len(pending))
        elif e == 'reply':
            for rid in ev['ids']:
                if rid in pending:
                    pending.remove(rid)
                    expect[rid]['cb'] += 1
        elif e == 'rx':
            for part in ev['parts']:
                if part['kind'] == 'reply':
                    if part['id'] in pending:
                        pending.remove(part['id'])
                        expect[part['id']]['cb'] += 1
                else:
                    context_flags.add('unsolicited' if part['kind'] == 'unsolicited' else 'dup')
                    if pending:
                        context_flags.add('unsolicited-while-pending' if part['kind'] == 'unsolicited' else 'dup-while-pending')
                    if part['kind'] == 'unsolicited' and variant == 'tcp':
                        tids = [res.reqs[p_].get('tid') for p_ in pending if p_ in res.reqs]
                        if part.get('tid') in tids:
                            out['inconclusive'] = True
        elif e == 'unsolicited':
            context_flags.add('unsolicited')
            if variant == 'tcp':
                tids = [res.reqs[p].get('tid') for p in pending if p in res.reqs]
                if ev.get('tid') in tids:
                    out['inconclusive'] = True
            if pending:
                context_flags.add('unsolicited-while-pending')
        elif e == 'dup':
            context_flags.add('dup')
            if pending:
                context_flags.add('dup-while-pending')
        elif e == 'lose':
            context_flags.add('lose')
            lost = True
            for rid in pending:
                expect[rid]['eb'] = 1
                if rid in reissue_of:
                    # its errback issues a new request: the connection is already gone, it must fail too
                    expect[reissue_of[rid]] = {'cb': 0, 'eb': 1, 'after_loss': True}
            pending = []
    if out['inconclusive']:
        return out
    if context_flags & {'unsolicited-while-pending', 'dup-while-pending'}:
        ctx = 'stray-reply-while-pending'
    elif context_flags & {'unsolicited', 'dup'}:
        ctx = 'stray-reply-nothing-pending'
    else:
        ctx = 'plain'
    if 'lose' in context_flags:
        ctx += '+lose'
    if 'close' in context_flags:
        sig0['closed_by_application'] = True
    for rid, want in expect.items():
        rec = res.reqs.get(rid)
        if rec is None:
            continue
        if rec.get('raised'):
            add('request-raised', 'request %d raised %s' % (rid, rec['raised']), exc=rec['raised'],
                after_loss=bool(want.get('after_loss')))
            continue
        ncb, neb = len(rec['cb']), len(rec['eb'])
        if ncb + neb > 1:
            add('fired-more-than-once', 'deferred of request %d fired %d callback(s) and %d errback(s)' % (rid, ncb, neb), context=ctx)
        elif (ncb, neb) != (want['cb'], want['eb']):
            if want['cb'] and not ncb:
                add('reply-not-delivered', 'request %d (tid %s): its reply arrived but the deferred did not fire (cb=%d eb=%d)'
                    % (rid, rec.get('tid'), ncb, neb), context=ctx)
            elif want['eb'] and not neb:
                add('pending-not-failed', 'request %d: connection lost%s but its deferred did not fail (cb=%d eb=%d)'
                    % (rid, ' before it was issued' if want.get('after_loss') else '', ncb, neb),
                    after_loss=bool(want.get('after_loss')), context=ctx)
            else:
                add('fired-unexpectedly', 'request %d: deferred fired (cb=%d eb=%d) although no reply for it had arrived'
                    % (rid, ncb, neb), context=ctx)
        if ncb == 1 and want['cb'] == 1:
            got = rec['cb'][0]
            if got['summary'] != twc.expected_summary(rec):
                add('wrong-reply', 'request %d (tid %s) received another reply than the one sent for it: %s'
                    % (rid, rec.get('tid'), str(got['summary'])[:80]), context=ctx)
            elif variant == 'tcp' and got['tid'] != rec.get('tid'):
                add('wrong-tid', 'request %d sent with tid %s got a reply object with tid %s' % (rid, rec.get('tid'), got['tid']))
        if neb == 1 and rec['eb'][0]['type'] != 'ConnectionException':
            add('wrong-failure', 'request %d failed with %s, not ConnectionException' % (rid, rec['eb'][0]['type']))
        if rec.get('wire_ok') is False and not want.get('after_loss'):
            add('request-frame-wrong', 'request %d: bytes written to the transport are not the request' % rid)
    if res.stray:
        add('exception-escaped', 'dataReceived/connectionLost raised: %s' % res.stray[:3], exc=res.stray[0])
    out['nontrivial'] = max_out >= 2 or bool(context_flags)
    for f in ('unsolicited', 'dup', 'lose'):
        if f in context_flags:
            out['faults'][f] = sum(1 for ev in scn['events'] if ev['e'] == f)
    ts = scn.get('tid_start') or 0
    out['probes']['tid_wrap_crossed'] = 1 if ts + sum(1 for ev in scn['events'] if ev['e'] == 'req') > 0xFFFF else 0
    out['probes']['max_outstanding'] = max_out
    out['probes']['coalesced_deliveries'] = sum(1 for ev in scn['events'] if ev['e'] == 'reply' and ev.get('coalesce') and len(ev['ids']) > 1)
    out['probes']['stray_and_reply_in_one_segment'] = sum(1 for ev in scn['events'] if ev['e'] == 'rx' and len(ev['parts']) > 1)
    out['probes']['cut_segments'] = sum(1 for ev in scn['events'] if ev['e'] == 'rx' and ev.get('cuts'))
    out['probes']['errback_reissues'] = sum(1 for r in res.reqs.values() if r.get('reissued'))
    out['probes']['lose_with_2plus_pending'] = 1 if 'lose' in context_flags and max_out >= 2 else 0
    out['cell'] = '%s/%s' % (variant, ctx)
    return out


def shrink_steps(scn):
    for cand in sh.without_chunks(scn['events']):
        s = copy.deepcopy(scn)
        s['events'] = cand
        yield s
    for i, ev in enumerate(scn['events']):
        if ev['e'] == 'rx':
            if ev.get('cuts'):
                s = copy.deepcopy(scn)
                s['events'][i]['cuts'] = []
                yield s
            if len(ev['parts']) > 1:
                for j in range(len(ev['parts'])):
                    s = copy.deepcopy(scn)
                    del s['events'][i]['parts'][j]
                    yield s
        if ev['e'] == 'reply' and len(ev['ids']) > 1:
            for j in range(len(ev['ids'])):
                s = copy.deepcopy(scn)
                del s['events'][i]['ids'][j]
                yield s
        if ev.get('coalesce'):
            s = copy.deepcopy(scn)
            s['events'][i]['coalesce'] = False
            yield s
    if scn.get('tid_start'):
        s = copy.deepcopy(scn)
        s['tid_start'] = 0
        yield s
