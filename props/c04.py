"""C04 - server executes data-access requests as a Modbus register file."""
from . import srvcommon as sc

ID = 'C04'
TITLE = 'Server executes data-access requests as a Modbus register file'
QUICK_S = 40
THOROUGH_S = 600
RULE = ('seeded histories of valid FC 1-6/15/16/22/23 requests (unique written values, addresses biased to block edges) on '
        'generated datastore layouts (sequential/sparse, zero-mode on/off, shared tables) through every front-end and framer, '
        'compared in lock-step with ref/device.py in the execution order observed by the recording decoder; non-trivial = >=1 '
        'request executed; distinct = distinct kernel event-kind sequence + front-end + framing')
ASSUMPTIONS = ['fault-free network, one frame per read (framing faults are C06/C07/C11)',
               'reference data model ref/device.py is the specification of the register file',
               'execution of one request is atomic between transport calls (pre-emption at transport operations only)']
STUBS = sc.STUBS
CLASSES = ('state-mismatch', 'wrong-response', 'wrong-unit', 'state-changed-by-nonwrite')

PROFILE = {'invalid_rate': 0.0, 'opaque_rate': 0.03, 'unknown_unit_rate': 0.0, 'multi_rate': 0.3,
           'broadcast_rate': 0.0, 'max_conns': 3, 'max_reqs': 12, 'pipeline_rate': 0.0}


def generate(rng, tier, index):
    scn = sc.gen_scenario(rng, sc.deepen(rng, PROFILE, tier))
    scn['property'] = ID
    return scn


def classify(scn, cls, detail, res=None):
    sig = {'property': ID, 'class': cls, 'fc': detail.get('fc')}
    if sc.binary_delim(scn, res):
        sig['binary_delim'] = True
    if cls in ('wrong-unit',) or detail.get('fe_specific'):
        sig['frontend'] = scn['frontend']
    return sig


def execute(scn):
    res = sc.execute_srv(scn)
    out = sc.base_outcome(scn, res)
    an = sc.Analysis(scn, res)
    for cls, detail, msg in an.v:
        if cls in CLASSES and detail.get('tag') in (None, 'valid', 'broadcast'):
            out['violations'].append({'sig': classify(scn, cls, detail), 'msg': msg})
    fcs = {}
    for e in res.execs:
        fcs['fc%d_executed' % e['pdu'][0]] = fcs.get('fc%d_executed' % e['pdu'][0], 0) + 1
    out['probes'].update(fcs)
    out['probes']['shared_tables'] = sum(1 for l in scn['units'].values() if l.get('share'))
    out['probes']['sparse_blocks'] = sum(1 for l in scn['units'].values() for b in l['tables'].values() if b['kind'] == 'sparse')
    return out


shrink_steps = sc.shrink_steps
debug = sc.debug
