"""C12 - no received byte sequence can crash a server or corrupt its data."""
import copy

from . import srvcommon as sc
from ref import codec, receiver
from sim.frontends import STREAM_KINDS, DGRAM_KINDS
from engine import shrink as sh

ID = 'C12'
TITLE = 'No received byte sequence can crash a server or corrupt its data'
QUICK_S = 40
THOROUGH_S = 600
RULE = ('seeded scenarios on H-SRV: one hostile connection/peer sends generated hostile input (random bytes; valid frames whose '
        'PDU is truncated, over-long or internally inconsistent; MBAP lengths 0/1/2/65535; unknown sub-functions; zero-length '
        'PDUs; bare function codes; well-formed, truncated, extended and bit-mutated requests for every service incl. diagnostics, '
        'file records and device identification), optionally vanishing (close / reset) at an arbitrary instant, a second well-behaved connection runs concurrently, a probe connection is opened '
        'afterwards; oracle: (a) nothing escapes a serving loop, (b) every datastore change is the model effect of a request '
        'that ref/receiver.justified() finds in the bytes given, (c) well-behaved and probe requests are answered correctly; '
        'non-trivial = >=1 hostile chunk was delivered; distinct = kernel event-kind sequence + front-end + framing')
ASSUMPTIONS = ['Twisted: an exception out of dataReceived drops that connection only (reactor contract) and is permitted for the offending connection',
               'closing the offending connection / discarding its data is allowed',
               'reference codec/receiver ref/*.py decide which write requests the hostile bytes really contain']
STUBS = sc.STUBS

KINDS_HOSTILE = ['random', 'trunc_pdu', 'long_pdu', 'inconsistent', 'mbap_len', 'subfunc', 'zero_pdu', 'mutate', 'valid', 'service', 'bare_fc']


def hostile_item(rng, kind, framing, unit, model, uniq):
    """-> raw bytes for one hostile chunk"""
    def valid_pdu():
        p = sc.gen_valid(rng, model, uniq)
        return p or bytes([3, 0, 0, 0, 1])

    def any_pdu():
        # the PDU that is then truncated / extended / mutated: a data-access request or, one time in three,
        # one of the other services (diagnostics, file records, device identification, ...)
        if rng.random() < 0.33:
            return rng.choice(sc.OPAQUE_REQS)
        return valid_pdu()
    if kind == 'random':
        return bytes(rng.randrange(256) for _ in range(rng.choice([1, 2, 5, 7, 8, 9, 12, 30, 100, 260])))
    if kind == 'valid':
        return codec.frame(framing, unit, valid_pdu(), tid=rng.randrange(65536))
    if kind == 'service':
        # a well-formed request for one of the non-data-access services (diagnostics incl. restart,
        # force listen only, clear counters; file records; device identification; ...)
        return codec.frame(framing, unit, rng.choice(sc.OPAQUE_REQS), tid=rng.randrange(65536))
    if kind == 'bare_fc':
        # nothing but a function code (every code the library implements, and a few it does not)
        fc = rng.choice([1, 2, 3, 4, 5, 6, 7, 8, 11, 12, 15, 16, 17, 20, 21, 22, 23, 24, 43, 9, 0x41, 0x7F, 0x80, 0x90, 0xFF])
        return codec.frame(framing, unit, bytes([fc]), tid=rng.randrange(65536))
    if kind == 'trunc_pdu':
        p = any_pdu()
        k = rng.randint(1, max(1, len(p) - 1))
        return codec.frame(framing, unit, p[:len(p) - k] or p[:1], tid=rng.randrange(65536))
    if kind == 'long_pdu':
        p = any_pdu() + bytes(rng.randrange(256) for _ in range(rng.choice([1, 2, 10])))
        return codec.frame(framing, unit, p[:253], tid=rng.randrange(65536))
    if kind == 'inconsistent':
        p = sc.gen_invalid(rng, model, uniq) or valid_pdu()
        if p[0] in (15, 16) and len(p) > 7 and rng.random() < 0.6:
            # byte count field says more (or less) than the data that follows
            p = p[:5] + bytes([(p[5] + rng.choice([1, 2, 7, 200])) & 0xFF]) + p[6:]
        return codec.frame(framing, unit, p[:253], tid=rng.randrange(65536))
    if kind == 'mbap_len':
        ln = rng.choice([0, 1, 2, 3, 255, 256, 65535, 0x7FFF])
        body = bytes(rng.randrange(256) for _ in range(rng.choice([0, 1, 2, 5, 20])))
        if framing == 'tcp':
            return bytes([0, rng.randrange(256), 0, 0, ln >> 8, ln & 0xFF, unit & 0xFF]) + body
        return codec.frame(framing, unit, body or b'\x03')
    if kind == 'subfunc':
        p = rng.choice([bytes([8, 0xFF, 0xFF, 0, 0]), bytes([8, 0, 0x30, 1, 2]), bytes([43, 13, 1, 0]), bytes([43, 14, 9, 0]),
                        bytes([43, 14, 1, 0x99]), bytes([43]), bytes([8]), bytes([8, 0]), bytes([20, 1, 6]), bytes([21, 0]),
                        bytes([24]), bytes([22, 0, 1])])
        return codec.frame(framing, unit, p, tid=rng.randrange(65536))
    if kind == 'zero_pdu':
        if framing == 'tcp':
            return bytes([0, 9, 0, 0, 0, 1, unit & 0xFF])
        if framing == 'rtu':
            return bytes([unit & 0xFF]) + codec.crc_bytes(bytes([unit & 0xFF]))
        if framing == 'ascii':
            return b':' + ('%02X%02X' % (unit & 0xFF, codec.lrc(bytes([unit & 0xFF])))).encode() + b'\r\n'
        if framing == 'binary':
            return b'{' + bytes([unit & 0xFF]) + codec.crc_bytes(bytes([unit & 0xFF])) + b'}'
        return b'\x00'
    if kind == 'mutate':
        fr = bytearray(codec.frame(framing, unit, any_pdu(), tid=rng.randrange(65536)))
        for _ in range(rng.randint(1, 3)):
            i = rng.randrange(len(fr))
            fr[i] ^= 1 << rng.randrange(8)
        return bytes(fr)
    raise ValueError(kind)


def generate(rng, tier, index):
    profile = {'invalid_rate': 0.0, 'opaque_rate': 0.05, 'unknown_unit_rate': 0.0, 'multi_rate': 0.3,
               'broadcast_rate': 0.0, 'max_conns': 1, 'max_reqs': 4, 'pipeline_rate': 0.0, 'allow_tls': False, 'listen_only': True}
    scn = sc.gen_scenario(rng, profile)      # gives layout, options and a well-behaved connection
    scn['property'] = ID
    kind, framing = scn['frontend'], scn['framing']
    good = scn['conns'][0]
    from ref import device as refdev
    units = sorted(scn['units'], key=int)
    models = {u: refdev.RefUnit(scn['units'][u]) for u in units}
    uniq = sc.Uniq(rng)
    enabled = rng.sample(KINDS_HOSTILE, rng.randint(1, 4))      # swarm: subset of hostile kinds per run
    sep = 2.5 * scn['opts'].get('serial_timeout', 0.02) if kind == 'sync_serial' else 0.01
    hostile = []
    t = 0.0
    for i in range(rng.randint(1, 6)):
        hk = rng.choice(enabled)
        u = int(rng.choice(units)) if not scn.get('single', True) else rng.choice([0, 1, 7])
        m = models[str(u)] if str(u) in models else models[units[0]]
        raw = hostile_item(rng, hk, framing, u, m, uniq)
        t += sep if rng.random() < 0.8 else 0.0
        item = {'raw': raw.hex(), 'at': round(t, 6), 'tag': 'hostile', 'hk': hk}
        if kind in STREAM_KINDS and len(raw) > 2 and rng.random() < 0.3:
            item['cuts'] = sorted(set(rng.randrange(1, len(raw)) for _ in range(rng.randint(1, 3))))
            item['cutgap'] = 0.0
        hostile.append(item)
    t_end_hostile = t + 4 * sep
    # well-behaved traffic runs concurrently; probe afterwards
    probe = []
    um = models[units[0]]
    pu = int(units[0]) if not scn.get('single', True) else 1
    seen = set(bytes.fromhex(r['pdu']) for r in good)
    for j in range(2):
        p = sc.gen_valid(rng, um, uniq, fcs=[3, 6, 16, 1, 5, 3])
        if p and p not in seen:
            seen.add(p)
            probe.append({'u': pu, 'tid': 7000 + j, 'pdu': p.hex(), 'at': round(t_end_hostile + (j + 1) * max(sep, 0.01) * 2, 6),
                          'join': False, 'tag': 'valid'})
    for r in good:
        r['tag'] = r.get('tag', 'valid')
    if kind == 'sync_serial':
        # one line: hostile bytes, a quiet period, then the well-behaved frames as the probe
        base = t_end_hostile + 10 * sep
        for j, r in enumerate(good + probe):
            r['at'] = round(base + j * sep * 1.2 + (sep if j else 0), 6)
        scn['conns'] = [hostile + good + probe]
        scn['hostile_items'] = len(hostile)
        scn['hostile'] = []
        scn['probe_conn'] = 0
    else:
        scn['conns'] = [hostile, good, probe]
        scn['hostile'] = [0]
        scn['open_at'] = {'2': round(t_end_hostile, 6)}
        scn['probe_conn'] = 2
    scn['settle'] = max(scn.get('settle', 1.0), 1.0)
    if kind in STREAM_KINDS and kind != 'sync_serial' and rng.random() < 0.3:
        # the hostile peer vanishes (close or reset) at an arbitrary instant of its own traffic, also mid-frame
        sc.add_peer_close(rng, scn, conn=0)
    elif kind in STREAM_KINDS and kind != 'sync_serial' and rng.random() < 0.15:
        # the hostile peer crashes and comes back from the same address and port: the probe connection IS that
        # re-connection, and the server learns of the old connection's death only after it accepted the new one
        scn['opts']['same_addr'] = {'2': 0}
        scn['peer_closes'] = [{'c': 0, 'at': scn['open_at']['2'], 'how': rng.choice(['reset', 'reset', 'eof'])}]
        # ... and the re-connected peer finally leaves in an orderly way
        scn['closes'] = [{'c': 2, 'after': 0.2, 'how': 'eof'}]
    return scn


def classify(scn, cls, detail, res=None):
    sig = {'property': ID, 'class': cls, 'frontend': scn['frontend'], 'framing': scn['framing']}
    for k in ('where', 'exc', 'stage', 'conn', 'fc', 'hk', 'overlong_pdu'):
        if k in detail:
            sig[k] = detail[k]
    if sc.binary_delim(scn, res):
        sig['binary_delim'] = True
    if sc.listen_only(scn, res):
        sig['listen_only'] = True
    return sig


def execute(scn):
    res = sc.execute_srv(scn)
    out = sc.base_outcome(scn, res)
    kind, framing = scn['frontend'], scn['framing']
    hostile_kinds = sorted(set(r.get('hk') for reqs in scn['conns'] for r in reqs if r.get('raw') is not None))
    hk = '+'.join(hostile_kinds)
    viol = []
    # (a) nothing escapes a serving loop
    for cls, detail, msg in sc.harness_violations(scn, res):
        detail = dict(detail, hk=hk)
        viol.append((cls, detail, msg))
    an = sc.Analysis(scn, res, skip_unmatched_output=(kind == 'sync_serial'))
    # (b) datastore changes only as justified, well-formed write requests prescribe
    if an.unsolicited or any(x[0] in ('state-mismatch', 'state-changed-on-rejected', 'state-changed-by-nonwrite') for x in an.v):
        just = set()
        for c, items in res.inputs.items():
            if kind in STREAM_KINDS:
                data = b''.join(d for (_, d) in items)
                just |= receiver.justified_pdus(framing, data, 'req')
            else:
                for (_, d) in items:
                    just |= receiver.justified_pdus(framing, d, 'req')
        just_pdus = set(p for (_, _, p) in just)
        hitems = [(r.get('hk'), bytes.fromhex(r['raw'])) for reqs in scn['conns'] for r in reqs if r.get('raw') is not None]
        for u in an.unsolicited:
            e = u['exec']
            if not u['changed']:
                continue
            needle = e['pdu'].hex().upper().encode() if framing == 'ascii' else e['pdu']
            hk = next((k for (k, raw) in hitems if needle and needle in raw), None) or \
                next((k for (k, raw) in hitems if needle[:4] in raw), '?')
            want_len = codec.request_len(e['pdu'])
            overlong = want_len not in (None, -1) and want_len < len(e['pdu'])
            if overlong and (e['pdu'] not in just_pdus or not u['effect_ok']):
                viol.append(('overlong-pdu-executed', {'fc': e['pdu'][0], 'hk': hk},
                             'write request followed by %d extra byte(s) inside its frame was executed: pdu=%s'
                             % (len(e['pdu']) - want_len, e['pdu'].hex()[:60])))
            elif e['pdu'] not in just_pdus:
                viol.append(('unjustified-write', {'fc': e['pdu'][0] if e['pdu'] else None, 'hk': hk},
                             'datastore changed by pdu=%s, but the bytes received contain no valid frame for it' % e['pdu'].hex()[:60]))
            elif not u['effect_ok']:
                viol.append(('wrong-write-effect', {'fc': e['pdu'][0], 'hk': hk},
                             'pdu=%s from the hostile connection changed cells other than the request prescribes' % e['pdu'].hex()[:60]))
        for cls, detail, msg in an.v:
            if cls in ('state-mismatch', 'state-changed-on-rejected', 'state-changed-by-nonwrite'):
                viol.append(('good-conn-' + cls, {'fc': detail.get('fc'), 'hk': hk}, msg))
    # (c) the well-behaved connection and the probe are served correctly
    pc = scn.get('probe_conn')
    if False and kind == 'sync_serial':
        # (disabled: a serial line has no fresh connection, and what hostile bytes may cost the
        # following frames is exactly C11's subject - resynchronisation within two maximum frames
        # of further traffic; a probe of two or three short frames is inside that grace window)
        # one shared line, no fresh connection: what the hostile bytes may cost is C11's subject
        # (resynchronisation within a bounded amount of traffic); here only "never stops serving"
        # is demanded: the LAST request on the line must be answered by the last frame written
        good = [r for r in scn['conns'][0] if r.get('raw') is None]
        if good:
            lastq = {'pdu': bytes.fromhex(good[-1]['pdu']), 'u': good[-1]['u'], 'tid': good[-1]['tid']}
            try:
                frames = sc.split_output(framing, res.outputs.get(0, []), True)
            except codec.Malformed:
                frames = None
                # garbage answers to garbage may be unparseable; look at the last write only
                try:
                    frames = sc.split_output(framing, res.outputs.get(0, [])[-1:], True)
                except codec.Malformed:
                    frames = []
            if not frames or not sc.Analysis._answers(framing, lastq, frames[-1]):
                viol.append(('service-response-missing', {'conn': 'line', 'hk': hk, 'fc': lastq['pdu'][0]},
                             'the last request on the serial line (pdu %s) was not answered after the hostile input'
                             % lastq['pdu'].hex()[:40]))
    for cls, detail, msg in an.v:
        if kind == 'sync_serial':
            break
        if cls in ('response-missing', 'wrong-response', 'wrong-exception', 'output-garbled', 'response-extra'):
            conn = 'probe' if ('connection %d' % pc in msg or 'peer %d' % pc in msg) else 'good'
            viol.append(('service-' + cls, dict(detail, conn=conn, hk=hk), msg))
    for cls, detail, msg in viol:
        d = {k: v for k, v in detail.items() if k in ('where', 'exc', 'stage', 'conn', 'fc', 'hk', 'overlong_pdu')}
        out['violations'].append({'sig': classify(scn, cls, d, res), 'msg': msg})
    nh = sum(1 for reqs in scn['conns'] for r in reqs if r.get('raw') is not None)
    out['nontrivial'] = nh > 0
    for k in hostile_kinds:
        out['faults']['hostile_' + str(k)] = sum(1 for reqs in scn['conns'] for r in reqs if r.get('hk') == k)
    out['probes']['hostile_execs'] = len(an.unsolicited)
    out['probes']['hostile_writes_applied'] = sum(1 for u in an.unsolicited if u['changed'])
    out['probes']['connections_dropped_by_server'] = sum(1 for v in res.server_closed.values() if v)
    return out


def shrink_steps(scn):
    # hostile items first, then the generic steps
    for c, reqs in enumerate(scn['conns']):
        hostile_idx = [i for i, r in enumerate(reqs) if r.get('raw') is not None]
        if len(hostile_idx) > 1:
            for i in hostile_idx:
                s = copy.deepcopy(scn)
                del s['conns'][c][i]
                yield s
        for i in hostile_idx:
            raw = bytes.fromhex(reqs[i]['raw'])
            if len(raw) > 1:
                for cand in (raw[:len(raw) // 2], raw[len(raw) // 2:], raw[:-1], raw[1:]):
                    s = copy.deepcopy(scn)
                    s['conns'][c][i]['raw'] = cand.hex()
                    s['conns'][c][i].pop('cuts', None)
                    yield s
    for c, reqs in enumerate(scn['conns']):
        good_idx = [i for i, r in enumerate(reqs) if r.get('raw') is None]
        for i in good_idx:
            s = copy.deepcopy(scn)
            del s['conns'][c][i]
            yield s
    for c, reqs in enumerate(scn['conns']):
        for i, r in enumerate(reqs):
            if r.get('cuts'):
                s = copy.deepcopy(scn)
                s['conns'][c][i]['cuts'] = []
                yield s
    if scn.get('peer_closes'):
        s = copy.deepcopy(scn)
        s.pop('peer_closes')
        yield s
    for key in list((scn.get('opts') or {}).keys()):
        if key != 'serial_timeout':
            s = copy.deepcopy(scn)
            s['opts'].pop(key)
            yield s


debug = sc.debug
