"""C08 - synchronous client returns only the reply to its own request."""
from . import clicommon as cc
from harness import cli
from ref import codec, receiver

ID = 'C08'
TITLE = 'Synchronous client returns only the reply to its own request'
QUICK_S = 40
THOROUGH_S = 600
RULE = ('one caller on one real synchronous client (TCP, UDP, serial rtu/ascii/binary, framer-over-TCP, TLS stub), 1-8 '
        'transactions of all mixin request types plus, through client.execute(), the rest of the request classes (FC 07, 08 with '
        'sub-functions 0-3/10-18/20/21, 0B, 0C, 11, 14, 15, 18, 2B/0E) with spec-conformant replies; fault-free config: the reference server answers every '
        'request (normal or exception), replies cut into pieces on stream transports or arriving slowly (late start, '
        'segments spread over up to 0.85 x timeout), and the returned object must carry '
        'exactly the values sent; fault config: before/instead of the right reply the peer sends stale frames (previous '
        'transaction id, another unit, another function code), after earlier timed-out transactions, with the tid counter '
        'started near 0xFFFF. Oracle: the return value is an error object or a response that IS one of the objects the '
        'client decoder produced during this call from bytes received during this call, and the frame those PDU bytes sat '
        'in (re-derived by the reference receiver) has the request tid (MBAP) / unit (serial) and function code or |0x80. '
        'Non-trivial = >=1 transaction reached the wire; distinct = kernel event-kind sequence + client kind + framing')
ASSUMPTIONS = ['broadcast mode (broadcast_enable and unit 0) returns a constant by design and is excluded',
               'reference codec/receiver decide which frames the bytes received during the call contain']
STUBS = cc.STUBS


def generate(rng, tier, index):
    kind, framing = rng.choice(cc.CLIENT_KINDS)
    timeout = rng.choice([0.05, 0.2, 1.0])
    kw = {'timeout': timeout, 'retries': rng.choice([0, 1, 1, 2, 3])}
    if rng.random() < 0.3:
        kw['retry_on_empty'] = True
    if rng.random() < 0.2:
        kw['retry_on_invalid'] = True
    kw['backoff'] = rng.choice([0.01, 0.05])
    if kind == 'serial' and rng.random() < 0.15:
        kw['handle_local_echo'] = True
    faulty = rng.random() < 0.5
    gen = cc.OpGen(rng, framing, extended=rng.choice([0.0, 0.0, 0.3, 0.7]))
    units = rng.choice([[1], [1], [17], [1, 2], [0], [255], [247, 3]])
    ops = []
    prev_reply = None
    for i in range(rng.randint(1, 8)):
        op = gen.op(unit=rng.choice(units), maxn=rng.choice([10, 60, None]))
        script = []
        good = codec.frame(framing, op['unit'], cli.reply_pdu(op), tid=0)
        if faulty and rng.random() < 0.6:
            act = rng.choice(['stale_first', 'stale_first', 'wrong_tid', 'wrong_unit', 'wrong_fc', 'nothing', 'late', 'dup',
                              'stale_other_unit', 'stale_other_fc'])
            if act == 'stale_first':
                # a complete, valid reply frame that belongs to another transaction
                other = gen.op(fn=op['fn'], unit=op['unit'], exc_rate=0.0, maxn=10)
                stale_tid = rng.choice([0, 1, 77, 0xFFFF, 0x1234])
                script.append({'act': 'stale_first', 'hex': codec.frame(framing, op['unit'], cli.reply_pdu(other), tid=stale_tid).hex(),
                               'gap': rng.choice([0.0, 0.001])})
            elif act == 'stale_other_unit':
                other = gen.op(fn=op['fn'], unit=op['unit'], exc_rate=0.0, maxn=10)
                script.append({'act': 'stale_first', 'hex': codec.frame(framing, (op['unit'] + 5) & 0xFF, cli.reply_pdu(other), tid=9).hex(),
                               'gap': 0.0})
            elif act == 'stale_other_fc':
                fn2 = rng.choice([f for f in ('read_holding_registers', 'write_register', 'read_coils') if f != op['fn']])
                other = gen.op(fn=fn2, unit=op['unit'], exc_rate=0.0, maxn=5)
                script.append({'act': 'stale_first', 'hex': codec.frame(framing, op['unit'], cli.reply_pdu(other), tid=9).hex(),
                               'gap': 0.0})
            elif act == 'wrong_fc':
                fn2 = rng.choice([f for f in ('read_holding_registers', 'write_register', 'read_coils') if f != op['fn']])
                other = gen.op(fn=fn2, unit=op['unit'], exc_rate=0.0, maxn=5)
                script.append({'act': 'wrong_fc', 'hex': cli.reply_pdu(other).hex()})
            elif act == 'late':
                script.append({'act': 'late', 'delay': timeout * rng.choice([1.5, 3.0])})
            elif act == 'wrong_tid':
                script.append({'act': 'wrong_tid', 'dt': rng.choice([1, -1, 0x100])})
            elif act == 'wrong_unit':
                script.append({'act': 'wrong_unit', 'du': rng.choice([1, 5, 255])})
            else:
                script.append({'act': act})
        elif kind in ('tcp', 'serial') and len(good) > 4 and rng.random() < 0.12:
            # a slow but conformant server: the reply starts late and (TCP) dribbles in over several segments,
            # all of it well inside the client's timeout (done after at most 0.8 x timeout)
            d0, gap = rng.choice([(0.1, 0.05), (0.3, 0.1), (0.4, 0.1), (0.05, 0.25), (0.02, 0.2), (0.5, 0.0)])
            nseg = min(rng.randint(2, 4), int((0.85 - d0) / gap) if gap else 4) if kind == 'tcp' else 0
            script.append({'act': 'exception' if 'exc' in op['reply'] else 'reply', 'code': op['reply'].get('exc', 2),
                           'delay': round(timeout * d0, 6),
                           'cuts': sorted(set(rng.randrange(1, len(good)) for _ in range(nseg))),
                           'cutgap': round(timeout * gap, 6)})
        elif kind in ('tcp', 'serial') and len(good) > 3 and rng.random() < 0.3:     # (TLS: a record is never split by the stub)
            script.append({'act': 'exception' if 'exc' in op['reply'] else 'reply',
                           'code': op['reply'].get('exc', 2),
                           'cuts': sorted(set(rng.randrange(1, len(good)) for _ in range(rng.randint(1, 3)))),
                           # serial: pieces model driver read chunking of a contiguous frame (a pause
                           # inside an RTU frame would violate t1.5 and is no conformant reply);
                           # TCP: segments may be spaced out
                           'cutgap': rng.choice([0.0, 0.0005]) if kind == 'serial' else rng.choice([0.0, 0.001, timeout / 10])})
        if script:
            op['script'] = script
        if kind == 'serial' and rng.random() < 0.3:
            # next transaction a few milliseconds later: around the RTU silent interval
            op['think'] = rng.choice([0.0005, 0.001, 0.002, 0.0025, 0.003, 0.0035, 0.004, 0.006, 0.01])
        ops.append(op)
    scn = {'property': ID, 'harness': 'cli', 'client': {'kind': kind, 'framing': framing, 'kwargs': kw},
           'callers': [ops], 'cpu_step': rng.choice([2e-6, 1e-5, 5e-5]), 'sched': {'tail_seed': rng.randrange(1 << 30)},
           'config': 'fault' if faulty else 'fault-free'}
    if rng.random() < 0.3:
        scn['tid_start'] = rng.choice([0xFFFD, 0xFFFE, 0xFFFF, 0xFFFC])
    return scn


def execute(scn):
    res = cli.run(scn)
    out = cc.base_outcome(scn, res)
    c = scn['client']
    kind, framing = c['kind'], c['framing']
    bcast = bool((c.get('kwargs') or {}).get('broadcast_enable'))
    ops = scn['callers'][0]
    peer = res.peer
    sig0 = {'property': ID, 'kind': kind, 'framing': framing, 'config': scn.get('config', 'fault-free')}
    if cc.binary_delim(scn):
        sig0['binary_delim'] = True
    faulty_acts = set()
    for call in res.calls:
        op = ops[call['index']]
        acts = [a['act'] for a in (op.get('script') or [])]
        faulty_acts |= set(acts)
        if bcast and op.get('unit') == 0:
            continue
        r = call['result']
        if call['exc'] is not None:
            continue                # raising is C13's business
        if r is None:
            out['violations'].append({'sig': dict(sig0, **{'class': 'returned-none', 'fn': op['fn']}),
                                      'msg': 'call %d returned None' % call['index']})
            continue
        fc = cli.request_pdu(op)[0]
        from pymodbus.exceptions import ModbusIOException
        if isinstance(r, ModbusIOException):
            # an error object is always acceptable for C08 - except in the fault-free configuration,
            # where a conformant server's well-formed reply must be returned decoded
            if scn.get('config') == 'fault-free' and not acts:
                out['violations'].append({'sig': dict(sig0, **{'class': 'good-reply-rejected',
                                                               'reply': 'exception' if 'exc' in op['reply'] else 'normal',
                                                               'size_prediction': op['fn'] not in ('mask_write_register', 'read_exception_status'),
                                                               'prev_failed': prev_failed(res, ops, call)}),
                                          'msg': 'call %d (%s, unit %d): a well-formed reply was sent but the client returned %s'
                                          % (call['index'], op['fn'], op['unit'], str(r)[:100])})
            continue
        # (a) identity: produced by the client's decoder during this call
        ents = [d for d in res.decodes if d['obj'] is r]
        during = [d for d in ents if call['invoke_seq'] < d['seq'] < call['return_seq']]
        if not during:
            cls = 'object-not-decoded-in-this-call'
            out['violations'].append({'sig': dict(sig0, **{'class': cls, 'stale_from_earlier_call': bool(ents)}),
                                      'msg': 'call %d returned %s that the decoder did not produce during this call'
                                      % (call['index'], type(r).__name__)})
            continue
        pdu = during[-1]['pdu']
        # (b) the frame those PDU bytes sat in, re-derived from the bytes received during the call
        rx = b''.join(d for (seq, task, k_, name, d) in res_io(res) if k_ == 'recv' and call['invoke_seq'] < seq < call['return_seq'])
        wire = [x for x in peer.rx if x.get('op') == (0, call['index']) and x['ok']] if peer else []
        req_tid = wire[-1]['tid'] if wire else None
        if kind == 'udp':
            frames = []
            for (seq, task, k_, name, d) in res_io(res):
                if k_ == 'recv' and call['invoke_seq'] < seq < call['return_seq']:
                    frames += receiver.justified(framing, d, 'rsp')
        elif framing == 'tls':
            # no framing on the wire: a PDU is some run of consecutive reads
            chunks = [d for (seq, task, k_, name, d) in res_io(res)
                      if k_ == 'recv' and call['invoke_seq'] < seq < call['return_seq']]
            frames = []
            for i in range(len(chunks)):
                for j in range(i + 1, len(chunks) + 1):
                    frames.append((i, j, None, None, b''.join(chunks[i:j])))
        else:
            frames = receiver.justified(framing, rx, 'rsp')
        cands = [f for f in frames if f[4] == pdu]
        ok = False
        why = 'no frame carrying these PDU bytes among the bytes received during the call'
        for (s, e, unit, tid, p) in cands:
            why = ''
            if p[0] not in (fc, fc | 0x80):
                why = 'function code %d does not answer request code %d' % (p[0], fc)
            elif framing == 'tcp' and tid != req_tid:
                why = 'transaction id %s, request had %s' % (tid, req_tid)
            elif framing in ('rtu', 'ascii', 'binary') and unit != op['unit']:
                why = 'unit id %s, request was for %s' % (unit, op['unit'])
            if not why:
                ok = True
                break
        if not ok:
            cls = 'foreign-reply-returned'
            wtag = ('fc' if why.startswith('function') else 'tid' if why.startswith('transaction') else
                    'unit' if why.startswith('unit') else 'no-frame')
            out['violations'].append({'sig': dict(sig0, **{'class': cls, 'mismatch': wtag,
                                                           'request_unit_wildcard': op['unit'] in (0, 255)}),
                                      'msg': 'call %d (%s unit %d) returned %s decoded from pdu %s: %s'
                                      % (call['index'], op['fn'], op['unit'], type(r).__name__, pdu.hex()[:40], why)})
            continue
        # (c) values, when the right reply was what the server sent for this request
        if scn.get('config') == 'fault-free' and len(acts) <= 1 and set(acts) <= {'reply', 'exception'}:
            if acts and acts[0] == 'exception':
                op = dict(op, reply={'exc': (op['script'][0].get('code', 2))})
            okv, whyv = cc.values_match(op, r)
            if not okv:
                out['violations'].append({'sig': dict(sig0, **{'class': 'wrong-values', 'fn': op['fn']}),
                                          'msg': 'call %d (%s): %s' % (call['index'], op['fn'], whyv)})
    for a in faulty_acts:
        out['faults'][a] = out['faults'].get(a, 0) + 1
    out['probes']['tid_wrap_crossed'] = 1 if scn.get('tid_start') and len(ops) + scn['tid_start'] > 0xFFFF else 0
    out['probes']['cut_replies'] = sum(1 for op in ops for a in (op.get('script') or []) if a.get('cuts'))
    out['nontrivial'] = bool(peer and peer.rx)
    out['cell'] = '%s/%s/%s' % (kind, framing, scn.get('config'))
    return out


def prev_failed(res, ops, call):
    i = call['index']
    if i == 0:
        return False
    prev = [c for c in res.calls if c['index'] == i - 1]
    from pymodbus.exceptions import ModbusIOException
    return bool(prev and (isinstance(prev[0]['result'], ModbusIOException) or prev[0]['exc'] is not None))


def res_io(res):
    return res_io_cache(res)


def res_io_cache(res):
    # kernel io log: (seq, task, kind, endpoint, bytes); client side endpoints only
    io = getattr(res, '_io', None)
    if io is None:
        io = [x for x in res.io if x[3].startswith('cli')]
        res._io = io
    return io


shrink_steps = cc.shrink_steps
