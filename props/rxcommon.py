"""Shared corpus / helpers for the receiver-side properties (C06, C07, C11) on H-RX."""
from ref import codec

FRAMINGS = ['tcp', 'rtu', 'ascii', 'binary']
HEADER = {'tcp': 7, 'rtu': 2, 'ascii': 5, 'binary': 3}

STUBS = {
    'real': ['pymodbus.framer.{socket,rtu,ascii,binary}_framer (processIncomingPacket and everything below it)',
             'pymodbus.factory ServerDecoder / ClientDecoder, all *_message decode()', 'pymodbus.utilities checksums'],
    'stub': ['the transport: chunks are handed to processIncomingPacket one call per read, as every front-end does',
             'the sender: frames are built by the spec-derived reference codec (ref/codec.py), not by pymodbus',
             'receiving-loop policy on an exception: resetFrame() and carry on (what the real serial handlers do)'],
}


def has_delim(b):
    return 0x7B in b or 0x7D in b


def regs(n, base):
    return [(base + 3 * i) & 0xFFFF for i in range(n)]


def request_corpus():
    c = codec
    out = [
        c.req_read(1, 0, 1), c.req_read(1, 19, 37), c.req_read(2, 100, 2000), c.req_read(3, 0, 1), c.req_read(3, 107, 125),
        c.req_read(4, 8, 3), c.req_write_coil(172, 0xFF00), c.req_write_coil(3, 0), c.req_write_reg(1, 3), c.req_write_reg(65535, 65535),
        c.req_write_coils(19, [True, False, True, True, False, False, True, True, True, False]),
        c.req_write_coils(0, [True] * 1), c.req_write_coils(5, [bool(i % 3) for i in range(200)]),
        c.req_write_regs(1, [10, 258]), c.req_write_regs(0, regs(1, 7)), c.req_write_regs(300, regs(60, 1000)),
        c.req_write_regs(2, regs(123, 4000)),
        c.req_mask_write(4, 0x00F2, 0x0025), c.req_read_write(3, 6, 14, [255, 255, 255]),
        c.req_read_write(0, 125, 0, regs(20, 500)),
        bytes([7]), bytes([8, 0, 0, 0x12, 0x34]), bytes([8, 0, 2, 0, 0]), bytes([8, 0, 0x0A, 0, 0]), bytes([11]), bytes([12]), bytes([17]),
        bytes([20, 7, 6, 0, 4, 0, 1, 0, 2]), bytes([21, 9, 6, 0, 4, 0, 7, 0, 1, 0x06, 0xAF]),
        bytes([24, 4, 0xDE]), bytes([43, 14, 1, 0]), bytes([43, 14, 4, 0x81]),
        # two file sub-requests each; the remaining diagnostic sub-functions
        bytes([20, 14, 6, 0, 4, 0, 1, 0, 2, 6, 0, 3, 0, 9, 0, 2]),
        bytes([21, 13, 6, 0, 4, 0, 7, 0, 3, 0x06, 0xAF, 0x04, 0xBE, 0x10, 0x0D]),
        bytes([8, 0, 1, 0xFF, 0]), bytes([8, 0, 4, 0, 0]), bytes([8, 0, 0x15, 0, 3]), bytes([8, 0, 0x15, 0, 4]),
    ]
    return out


def response_corpus():
    c = codec
    out = [
        c.rsp_bits(1, [True, False, True]), c.rsp_bits(1, [bool(i % 2) for i in range(64)]), c.rsp_bits(2, [True] * 22),
        c.rsp_bits(2, [bool((i * 7) % 3) for i in range(2000)]),
        c.rsp_regs(3, [0x022B, 0, 0x64]), c.rsp_regs(3, regs(125, 9)), c.rsp_regs(4, [10]), c.rsp_regs(4, regs(33, 77)),
        c.req_write_coil(172, 0xFF00), c.req_write_reg(1, 3), bytes([15, 0, 19, 0, 10]), bytes([16, 0, 1, 0, 2]),
        c.req_mask_write(4, 0x00F2, 0x0025), c.rsp_regs(23, regs(6, 254)), c.rsp_regs(23, regs(125, 3000)),
        c.rsp_exception(1, 2), c.rsp_exception(3, 3), c.rsp_exception(16, 4), c.rsp_exception(6, 1), c.rsp_exception(23, 0x0B),
        bytes([7, 0x6D]), bytes([8, 0, 0, 0x12, 0x34]), bytes([8, 0, 0x0B, 0, 9]), bytes([11, 0xFF, 0xFF, 1, 8]),
        bytes([12, 8, 0, 0, 1, 8, 1, 0x21, 0x20, 0]), bytes([17, 5, 1, 2, 3, 4, 0xFF]),
        bytes([20, 6, 5, 6, 0x0D, 0xFE, 0, 0x20]), bytes([21, 9, 6, 0, 4, 0, 7, 0, 1, 0x06, 0xAF]),
        bytes([24, 0, 6, 0, 2, 1, 0xB8, 0x12, 0x84]),
        bytes([43, 14, 1, 1, 0, 0, 1, 0, 3, 0x41, 0x42, 0x43]),
        # 08/21 get statistics (byte count + 54 words), device identification with three objects and
        # "more follows", a full FIFO (31 registers), an event log with 64 events, two file sub-responses
        bytes([8, 0, 0x15, 0, 3, 0, 108]) + bytes((i * 5 + 1) & 0xFF for i in range(108)),
        bytes([43, 14, 2, 0x82, 0xFF, 6, 3, 3, 2, 0x31, 0x32, 4, 5, 0x61, 0x62, 0x63, 0x64, 0x65, 5, 1, 0x5A]),
        bytes([24, 0, 64, 0, 31]) + b''.join(bytes([1 + i, 0x80 | i]) for i in range(31)),
        bytes([12, 70, 0, 0, 1, 8, 1, 0x21]) + bytes((0x20 + i) & 0xFF for i in range(64)),
        bytes([20, 12, 5, 6, 0x0D, 0xFE, 0, 0x20, 5, 6, 0x33, 0xCD, 0, 0x40]),
    ]
    return out


def corpus(decoder):
    return request_corpus() if decoder == 'server' else response_corpus()


def gen_pdus(rng, decoder, n, framing):
    base = corpus(decoder)
    out = []
    tries = 0
    while len(out) < n and tries < 50:
        tries += 1
        p = rng.choice(base)
        if rng.random() < 0.5:
            # fresh data-access message with random fields
            if decoder == 'server':
                k = rng.choice([1, 3, 5, 6, 15, 16, 22, 23])
                a = rng.randrange(65536)
                if k in (1, 3):
                    p = codec.req_read(k, a, rng.randint(1, 125))
                elif k == 5:
                    p = codec.req_write_coil(a, rng.choice([0, 0xFF00]))
                elif k == 6:
                    p = codec.req_write_reg(a, rng.randrange(65536))
                elif k == 15:
                    p = codec.req_write_coils(a, [bool(rng.getrandbits(1)) for _ in range(rng.randint(1, 300))])
                elif k == 16:
                    p = codec.req_write_regs(a, [rng.randrange(65536) for _ in range(rng.randint(1, 40))])
                elif k == 22:
                    p = codec.req_mask_write(a, rng.randrange(65536), rng.randrange(65536))
                else:
                    p = codec.req_read_write(a, rng.randint(1, 125), rng.randrange(65536),
                                             [rng.randrange(65536) for _ in range(rng.randint(1, 30))])
            else:
                k = rng.choice([1, 3, 4, 5, 6, 16, 0x83, 23])
                if k == 1:
                    p = codec.rsp_bits(1, [bool(rng.getrandbits(1)) for _ in range(rng.randint(1, 400))])
                elif k in (3, 4, 23):
                    p = codec.rsp_regs(k, [rng.randrange(65536) for _ in range(rng.randint(1, 125))])
                elif k == 5:
                    p = codec.req_write_coil(rng.randrange(65536), rng.choice([0, 0xFF00]))
                elif k == 6:
                    p = codec.req_write_reg(rng.randrange(65536), rng.randrange(65536))
                elif k == 16:
                    p = bytes([16]) + rng.randrange(65536).to_bytes(2, 'big') + rng.randint(1, 123).to_bytes(2, 'big')
                else:
                    p = codec.rsp_exception(rng.choice([1, 2, 3, 4, 5, 6, 15, 16, 22, 23]), rng.choice([1, 2, 3, 4, 6, 10, 11]))
        if framing == 'ascii' and len(p) > 252:
            continue
        out.append(p)
    return out


def frame_avoiding_delims(rng, framing, unit, pdu, tid):
    return codec.frame(framing, unit, pdu, tid=tid)


def relation(frames, cuts):
    """How an arrival schedule relates to frame boundaries: coordinates for signatures."""
    bounds = []
    pos = 0
    for f in frames:
        pos += len(f)
        bounds.append(pos)
    total = pos
    inner = [c for c in cuts if c not in bounds and 0 < c < total]
    missing = [b for b in bounds[:-1] if b not in cuts]
    if not inner and not missing:
        return 'aligned'
    if not inner:
        return 'whole-frames-coalesced'
    if not missing:
        return 'split-only'
    return 'split-and-coalesced'


def cut_in_header(framing, frames, cuts):
    h = HEADER[framing]
    pos = 0
    for f in frames:
        for c in cuts:
            if pos < c < pos + min(h, len(f)):
                return True
        pos += len(f)
    return False


def chunks_from_cuts(stream, cuts):
    cuts = sorted(set(c for c in cuts if 0 < c < len(stream)))
    out = []
    pos = 0
    for c in cuts + [len(stream)]:
        out.append(stream[pos:c])
        pos = c
    return out
