"""C05 - invalid requests get the right exception and change nothing."""
from . import srvcommon as sc

ID = 'C05'
TITLE = 'Invalid requests get the right exception and change nothing'
QUICK_S = 40
THOROUGH_S = 600
RULE = ('seeded histories biased to invalid requests (quantity 0 / limit+1 / 0xFFFF, ranges straddling every block edge, '
        'inconsistent byte counts, bad coil words, unassigned function codes, one-bad-range FC23) plus datastore faults at '
        'call k (FaultyContext) on generated layouts through every front-end; oracle = exception code the statement '
        'prescribes (03/02 either when both faults present) and full before/after dump equality; non-trivial = >=1 invalid '
        'request or datastore fault reached the server; distinct = kernel event-kind sequence + front-end + framing')
ASSUMPTIONS = ['fault-free network, one frame per read', 'a PDU truncated relative to its own length fields is malformed and judged by C12, not here',
               'reference data model ref/device.py']
STUBS = sc.STUBS
CLASSES = ('wrong-exception', 'state-changed-on-rejected', 'dsfault-wrong-answer', 'response-missing', 'state-mismatch')

PROFILE = {'invalid_rate': 0.6, 'opaque_rate': 0.0, 'unknown_unit_rate': 0.0, 'multi_rate': 0.25,
           'broadcast_rate': 0.0, 'max_conns': 2, 'max_reqs': 8, 'pipeline_rate': 0.0, 'dsfault_rate': 0.25}


def generate(rng, tier, index):
    scn = sc.gen_scenario(rng, sc.deepen(rng, PROFILE, tier))
    scn['property'] = ID
    return scn


def classify(scn, cls, detail, res=None):
    sig = {'property': ID, 'class': cls, 'fc': detail.get('fc')}
    if sc.binary_delim(scn, res):
        sig['binary_delim'] = True
    for k in ('want', 'got', 'stage', 'tag'):
        if k in detail:
            sig[k] = detail[k]
    if cls == 'response-missing':
        sig['stream'] = scn['frontend'] in sc.STREAM_KINDS
    return sig


def execute(scn):
    res = sc.execute_srv(scn)
    out = sc.base_outcome(scn, res)
    an = sc.Analysis(scn, res)
    for cls, detail, msg in an.v:
        if cls not in CLASSES:
            continue
        if cls in ('response-missing', 'state-mismatch') and detail.get('tag') not in ('invalid', 'dsfault'):
            continue
        out['violations'].append({'sig': classify(scn, cls, detail), 'msg': msg})
    ninv = sum(1 for reqs in scn['conns'] for r in reqs if r.get('tag') == 'invalid')
    out['nontrivial'] = bool(ninv or res.counters.get('dsfault_fired'))
    out['probes']['invalid_requests'] = ninv
    return out


shrink_steps = sc.shrink_steps
debug = sc.debug
