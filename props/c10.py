"""C10 - requests act only on the addressed unit; broadcast acts on all."""
from . import srvcommon as sc

ID = 'C10'
TITLE = 'Requests act only on the addressed unit; broadcast acts on all'
QUICK_S = 40
THOROUGH_S = 600
RULE = ('seeded histories on H-SRV with hosted unit sets drawn from {1},{1,2,3},{0,5},{255,7},{247},random subsets; addressed '
        'unit swept over hosted, absent, 0, 255; single/multi; broadcast_enable and ignore_missing_slaves on/off; per-unit '
        'dumps of all tables compared with the model after every executed request; non-trivial = a request addressed a unit '
        'other than the first hosted one, an absent unit, or the broadcast address; distinct = kernel event-kind sequence + front-end + framing')
ASSUMPTIONS = ['fault-free network, one frame per read', 'Twisted front-ends do not implement broadcast: excluded from that clause only',
               'reference data model ref/device.py']
STUBS = sc.STUBS
CLASSES = ('wrong-unit', 'absent-unit-executed', 'absent-unit-answered', 'broadcast-count', 'state-mismatch',
           'response-unexpected', 'state-changed-on-rejected', 'response-missing')

PROFILE = {'invalid_rate': 0.05, 'opaque_rate': 0.0, 'unknown_unit_rate': 0.3, 'multi_rate': 0.8,
           'broadcast_rate': 0.45, 'max_conns': 2, 'max_reqs': 8, 'pipeline_rate': 0.0,
           'fcs': [5, 6, 15, 16, 22, 23, 3, 1, 6, 16]}


def generate(rng, tier, index):
    scn = sc.gen_scenario(rng, sc.deepen(rng, PROFILE, tier))
    scn['property'] = ID
    return scn


def classify(scn, cls, detail, res=None):
    sig = {'property': ID, 'class': cls, 'frontend': scn['frontend'], 'framing': scn['framing'],
           'mode': 'single' if scn.get('single', True) else 'multi',
           'broadcast': bool((scn.get('opts') or {}).get('broadcast_enable'))}
    hosted = sorted(int(u) for u in scn['units'])
    sig['hosts_0_or_255'] = (0 in hosted or 255 in hosted) and not scn.get('single', True)
    for k in ('stage', 'tag'):
        if k in detail:
            sig[k] = detail[k]
    if cls in ('state-mismatch', 'state-changed-on-rejected'):
        sig['fc'] = detail.get('fc')
    if sc.binary_delim(scn, res):
        sig['binary_delim'] = True
    return sig


def execute(scn):
    res = sc.execute_srv(scn)
    out = sc.base_outcome(scn, res)
    an = sc.Analysis(scn, res)
    for cls, detail, msg in an.v:
        if cls not in CLASSES:
            continue
        if cls == 'response-missing' and detail.get('tag') not in ('valid',):
            continue        # invalid-request handling is C05's, framing C09's
        if cls in ('state-mismatch', 'state-changed-on-rejected') and detail.get('tag') == 'invalid':
            continue
        out['violations'].append({'sig': classify(scn, cls, detail, res), 'msg': msg})
    hosted = sorted(int(u) for u in scn['units'])
    nt = 0
    absent = bc = 0
    for reqs in scn['conns']:
        for r in reqs:
            if r.get('tag') == 'broadcast':
                bc += 1
            elif not scn.get('single', True) and r['u'] not in hosted:
                absent += 1
            elif r['u'] != hosted[0]:
                nt += 1
    out['nontrivial'] = bool(nt or absent or bc)
    out['probes'].update({'absent_unit_requests': absent, 'broadcast_requests': bc, 'other_unit_requests': nt})
    return out


shrink_steps = sc.shrink_steps
debug = sc.debug
