"""C11 - receivers resynchronise after noise and never go deaf (bounded liveness)."""
import copy

from . import rxcommon as rc
from ref import codec
from harness import rx

ID = 'C11'
TITLE = 'Receivers resynchronise after noise and never go deaf'
QUICK_S = 40
THOROUGH_S = 600
RULE = ('a garbage phase (random bytes, corrupted or truncated valid frames, frames for foreign units, lone delimiter '
        'characters, checksum-valid frames whose PDU the decoder cannot digest; <= 600 bytes) on the RTU/ASCII/binary framers, then faults stop and 25-40 valid frames follow, one per '
        'read or 2-3 per read, in half of the runs interleaved with valid frames for OTHER units (multi-drop bus traffic, '
        'never to be delivered). Oracle (bounded liveness): with g = offset where the garbage ends and B = 2 x maximum frame '
        'size of the framing, every valid frame that starts at offset >= g+B is delivered exactly once and in order, and the '
        'backlog len(framer._buffer) stays <= B + largest read while valid frames keep arriving. Frames inside the grace '
        'window carry no obligation. The receiving loop either resets the framer when the receive call raises or ignores the '
        'exception (both generated). Non-trivial = non-empty garbage; distinct = distinct event log')
ASSUMPTIONS = ['when processIncomingPacket raises, the receiving loop either calls resetFrame() and carries on (the policy of the sync serial handler) or does nothing at all (Twisted protocols, direct users): both policies are generated',
               'no timing signal (3.5-character silence) is modelled: pymodbus does not use it on receive either']
STUBS = rc.STUBS
FRAMINGS = ['rtu', 'ascii', 'binary']
BOUND = {'rtu': 2 * 256, 'ascii': 2 * 513, 'binary': 2 * 256}


def garbage_piece(rng, kind, framing, decoder):
    pd = rc.gen_pdus(rng, decoder, 1, framing)
    p = pd[0] if pd else bytes([3, 0, 0, 0, 1])
    fr = codec.frame(framing, 17, p)
    if kind == 'random':
        return bytes(rng.randrange(256) for _ in range(rng.choice([1, 3, 8, 20, 60, 200])))
    if kind == 'badcheck':
        b = bytearray(fr)
        i = rng.randrange(1, len(b) - 1) if framing != 'rtu' else rng.randrange(len(b))
        b[i] ^= 1 << rng.randrange(8)
        return bytes(b)
    if kind == 'truncated':
        return fr[:rng.randrange(1, len(fr))]
    if kind == 'foreign':
        return codec.frame(framing, rng.choice([2, 99, 200]), p)
    if kind == 'undecodable':
        # a frame with a VALID checksum (and, on RTU, the length its own header announces) for the receiver's
        # own unit whose PDU the decoder cannot digest: sub-request / counters cut short inside the PDU
        pool = ([bytes([0x15, 3, 6, 0, 1]), bytes([0x14, 2, 6, 0]), bytes([0x15, 1, 6]), bytes([0x2B, 0x0E])]
                if decoder == 'server' else
                [bytes([0x0C, 2, 0, 0]), bytes([0x0C, 1, 0]), bytes([0x11, 0]), bytes([0x15, 3, 6, 0, 1]), bytes([0x03, 1, 7])])
        return codec.frame(framing, 17, rng.choice(pool))
    if kind == 'delims':
        return bytes(rng.choice([0x3A, 0x7B, 0x7D, 0x0D, 0x0A]) for _ in range(rng.randint(1, 4)))
    raise ValueError(kind)


def generate(rng, tier, index):
    framing = rng.choice(FRAMINGS)
    decoder = rng.choice(['server', 'client'])
    kinds = rng.sample(['random', 'badcheck', 'truncated', 'foreign', 'delims', 'undecodable'], rng.randint(1, 3))
    garbage = []
    total = 0
    for _ in range(rng.randint(1, 5)):
        k = rng.choice(kinds)
        g = garbage_piece(rng, k, framing, decoder)
        if total + len(g) > 600:
            break
        total += len(g)
        garbage.append({'kind': k, 'hex': g.hex()})
    nvalid = rng.randint(25, 40)
    small = [p for p in rc.corpus(decoder) if len(p) <= 30]
    if framing == 'binary':
        small = [p for p in small if not rc.has_delim(codec.frame('binary', 17, p)[1:-1])]
    valid = []
    tot = 0
    # enough valid traffic that >= ~10 frames start beyond the grace window of B bytes
    # a multi-drop bus also carries (valid) frames for OTHER units between the frames for this receiver: they are
    # not garbage, they overlap nothing, and must neither be delivered nor cost any frame of this unit
    foreign_rate = rng.choice([0.0, 0.0, 0.3, 0.5])
    pool_f = [p for p in rc.corpus(decoder) if framing != 'binary' or not rc.has_delim(codec.frame('binary', 99, p)[1:-1])]
    while (tot < BOUND[framing] or len(valid) < nvalid or tot < BOUND[framing] + 300) and len(valid) < 400:
        if foreign_rate and rng.random() < foreign_rate and pool_f:
            pf = rng.choice(pool_f)
            valid.append({'u': rng.choice([2, 99, 200]), 'pdu': pf.hex()})
            tot += len(codec.frame(framing, 99, pf))
            continue
        p = rng.choice(small)
        valid.append({'u': 17, 'pdu': p.hex()})
        tot += len(codec.frame(framing, 17, p))
    per_read = rng.choice([1, 1, 2, 3])
    return {'property': ID, 'harness': 'rx', 'framing': framing, 'decoder': decoder, 'garbage': garbage,
            'garbage_split': rng.choice(['as_is', 'as_is', 'one_read', 'bytewise']),
            'valid': valid, 'per_read': per_read, 'units': [17],
            # what the receiving loop does when the receive call raises: 'reset' = resetFrame() and carry on (the
            # sync serial handler), 'keep' = nothing (Twisted protocols, direct users of the framer)
            'policy': rng.choice(['reset', 'keep'])}


def execute(scn):
    framing = scn['framing']
    gar = [bytes.fromhex(g['hex']) for g in scn['garbage']]
    if scn.get('garbage_split') == 'one_read':
        gar = [b''.join(gar)] if gar else []
    elif scn.get('garbage_split') == 'bytewise':
        gar = [bytes([b]) for b in b''.join(gar)]
    g_end = sum(len(x) for x in gar)
    frames = [codec.frame(framing, f['u'], bytes.fromhex(f['pdu'])) for f in scn['valid']]
    chunks = list(gar)
    pr = scn.get('per_read', 1)
    starts = []
    pos = g_end
    chunk_of = []
    for i in range(0, len(frames), pr):
        grp = frames[i:i + pr]
        for f in grp:
            starts.append(pos)
            chunk_of.append(len(chunks))
            pos += len(f)
        chunks.append(b''.join(grp))
    chunks.append(b'')
    res = rx.run({'framing': framing, 'decoder': scn['decoder'], 'chunks': [c.hex() for c in chunks],
                  'units': scn.get('units'), 'single': False, 'on_exception': scn.get('policy', 'reset')})
    B = BOUND[framing]
    kinds = sorted(set(g['kind'] for g in scn['garbage']))
    out = {'violations': [], 'inconclusive': False, 'nontrivial': g_end > 0, 'digest': res.digest, 'shape': res.digest,
           'vtime': 0.0, 'steps': len(chunks), 'faults': {}, 'probes': {},
           'cell': '%s/%s/per_read=%d/%s' % (framing, scn['decoder'], pr, scn.get('policy', 'reset'))}
    for g in scn['garbage']:
        out['faults']['garbage_' + g['kind']] = out['faults'].get('garbage_' + g['kind'], 0) + 1
    # obligations: frames FOR THIS UNIT that start at or after g_end + B
    own = [i for i in range(len(frames)) if scn['valid'][i]['u'] == 17]
    obliged = [i for i in own if starts[i] >= g_end + B]
    if not obliged:
        out['inconclusive'] = True
        return out
    first_chunk = chunk_of[obliged[0]]
    got = [d for d in res.delivered if d['chunk'] >= first_chunk]
    want = [bytes.fromhex(scn['valid'][i]['pdu']) for i in obliged if chunk_of[i] >= first_chunk]
    # frames of the same read as the first obliged frame but before it are not obliged: drop leading extras
    got_pdus = [d['pdu'] for d in got]
    extra_lead = len([i for i in own if chunk_of[i] == first_chunk and i < obliged[0]])
    sig_base = {'property': ID, 'framing': framing, 'decoder': scn['decoder'], 'garbage': '+'.join(kinds),
                'per_read': pr, 'policy': scn.get('policy', 'reset')}
    if scn.get('policy', 'reset') == 'reset' and any(e['chunk'] >= first_chunk for e in res.exceptions):
        # the receive call raised on a read that already carried obliged frames, and the loop reset the framer
        sig_base['reset_after_grace'] = True
    # every obliged frame exactly once and in order, nothing else after the first of them: the obliged frames
    # are a SUFFIX of everything this receiver delivered (what it delivered earlier - frames of the grace
    # window, possibly late, because a receive call that raised leaves the rest of its read for the next
    # call - carries no obligation)
    all_pdus = [d['pdu'] for d in res.delivered]
    ok = len(all_pdus) >= len(want) and all_pdus[len(all_pdus) - len(want):] == want
    if ok and any(d['unit'] != 17 for d in res.delivered):
        ok = False              # a frame for another unit was handed over
    if not ok:
        cls = 'deaf' if len(got_pdus) == 0 else ('frames-lost' if len(got_pdus) < len(want) else 'frames-wrong')
        out['violations'].append({'sig': dict(sig_base, **{'class': cls}),
                                  'msg': 'after %d garbage bytes (%s) and a grace window of %d bytes, %d of %d obliged valid frames were delivered'
                                  % (g_end, '+'.join(kinds), B, len(got_pdus), len(want))})
    big = max(len(c) for c in chunks) if chunks else 0
    # a receive call that raises (policy 'keep') hands back control with the rest of its read still buffered,
    # so every such call may add one read to the backlog for a while: the bound is B + one read + one read
    # per raising call - transient, and drained by the first call that does not raise.  "Unbounded" is
    # what exceeds even that, or is still there at the end of the run.
    tail_from = max(first_chunk, (first_chunk + len(chunks)) // 2)
    worst = max(res.backlog[first_chunk:]) if res.backlog[first_chunk:] else 0
    late = max(res.backlog[tail_from:]) if res.backlog[tail_from:] else 0
    if worst > B + big * (1 + len(res.exceptions)) or late > B + big:
        worst = max(worst, late)
        out['violations'].append({'sig': dict(sig_base, **{'class': 'backlog-unbounded'}),
                                  'msg': 'backlog reached %d bytes (> %d) while valid frames kept arriving' % (worst, B + big)})
    out['probes']['exceptions_from_receive'] = len(res.exceptions)
    out['probes']['obliged_frames'] = len(want)
    return out


def shrink_steps(scn):
    for i in range(len(scn['garbage'])):
        if len(scn['garbage']) > 1:
            s = copy.deepcopy(scn)
            del s['garbage'][i]
            yield s
    for i, g in enumerate(scn['garbage']):
        raw = bytes.fromhex(g['hex'])
        if len(raw) > 1:
            for cand in (raw[:len(raw) // 2], raw[len(raw) // 2:], raw[:-1], raw[1:]):
                s = copy.deepcopy(scn)
                s['garbage'][i]['hex'] = cand.hex()
                yield s
    if scn.get('per_read', 1) > 1:
        s = copy.deepcopy(scn)
        s['per_read'] = 1
        yield s
    if scn.get('garbage_split') != 'as_is':
        s = copy.deepcopy(scn)
        s['garbage_split'] = 'as_is'
        yield s
