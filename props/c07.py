"""C07 - corrupted frames are never delivered as messages."""
import copy

from . import rxcommon as rc
from ref import codec, receiver
from harness import rx

ID = 'C07'
TITLE = 'Corrupted frames are never delivered as messages'
QUICK_S = 40
THOROUGH_S = 600
RULE = ('streams of 1-3 valid frames (reference codec) with a corruption plan applied to one of them: 1-3 bit flips, a burst of '
        '<=16 bits, byte substitution / deletion / insertion, truncation, extension, valid frames before and after; delivered '
        'one (possibly corrupted) frame per read so that chunking faults (C06) do not interfere. Systematic part: every '
        'single-bit flip and every truncation length of each small corpus frame, every double flip for frames <= 8 bytes. '
        'Oracle: every delivered message (unit, tid on TCP, PDU bytes handed to the decoder) is one that '
        'ref/receiver.justified() finds in the bytes actually given (independent CRC/LRC/hex check; MBAP length == bytes '
        'consumed and == the PDU length its function code and count fields imply). Non-delivery is never a violation. '
        'Non-trivial = the corruption changed the stream; distinct = distinct event log')
ASSUMPTIONS = ['justified() is the weakest sound reading: a corruption that produces another valid frame is not flagged',
               'receiving loop resets the framer when processIncomingPacket raises (policy of the real serial handlers)']
STUBS = rc.STUBS


def apply_ops(frame, ops):
    b = bytearray(frame)
    for op in ops:
        k = op['kind']
        if not b and k != 'insert' and k != 'extend':
            continue
        if k == 'flip':
            i = op['pos'] % (len(b) * 8)
            b[i >> 3] ^= 1 << (i & 7)
        elif k == 'burst':
            start = op['pos'] % (len(b) * 8)
            for j, bit in enumerate(op['bits']):
                i = start + j
                if bit and i < len(b) * 8:
                    b[i >> 3] ^= 1 << (i & 7)
        elif k == 'sub':
            b[op['pos'] % len(b)] = op['val']
        elif k == 'delete':
            del b[op['pos'] % len(b)]
        elif k == 'insert':
            b.insert(op['pos'] % (len(b) + 1), op['val'])
        elif k == 'truncate':
            del b[max(0, min(len(b), op['pos'])):]
        elif k == 'extend':
            b += bytes(op['vals'])
    return bytes(b)


def mk(framing, decoder, frames, target, ops):
    return {'property': ID, 'harness': 'rx', 'framing': framing, 'decoder': decoder, 'frames': frames,
            'target': target, 'ops': ops}


def generate(rng, tier, index):
    framing = rng.choice(rc.FRAMINGS)
    decoder = rng.choice(['server', 'client'])
    pdus = rc.gen_pdus(rng, decoder, rng.choice([1, 2, 3]), framing)
    frames = []
    for p in pdus:
        u = rng.choice([1, 1, 17, 0, 255])
        if framing == 'binary' and rc.has_delim(codec.frame('binary', u, p)[1:-1]) and rng.random() < 0.93:
            continue
        if len(p) > 120 and rng.random() < 0.7:
            continue
        frames.append({'u': u, 'tid': rng.choice([1, 2, 0x1234, rng.randrange(65536)]), 'pdu': p.hex()})
    if not frames:
        frames.append({'u': 1, 'tid': 1, 'pdu': (codec.req_write_reg(1, 3) if decoder == 'server' else codec.rsp_regs(3, [5])).hex()})
    target = rng.randrange(len(frames))
    n = len(codec.frame(framing, frames[target]['u'], bytes.fromhex(frames[target]['pdu']), tid=frames[target]['tid']))
    kind = rng.choice(['flip1', 'flip2', 'flip3', 'burst', 'sub', 'delete', 'insert', 'truncate', 'extend', 'mixed'])
    ops = []
    if kind.startswith('flip'):
        for _ in range(int(kind[-1])):
            ops.append({'kind': 'flip', 'pos': rng.randrange(n * 8)})
    elif kind == 'burst':
        ln = rng.randint(2, 16)
        bits = [1] + [rng.getrandbits(1) for _ in range(ln - 2)] + [1]
        ops.append({'kind': 'burst', 'pos': rng.randrange(n * 8), 'bits': bits})
    elif kind == 'sub':
        ops.append({'kind': 'sub', 'pos': rng.randrange(n), 'val': rng.randrange(256)})
    elif kind == 'delete':
        ops.append({'kind': 'delete', 'pos': rng.randrange(n)})
    elif kind == 'insert':
        ops.append({'kind': 'insert', 'pos': rng.randrange(n + 1), 'val': rng.randrange(256)})
    elif kind == 'truncate':
        ops.append({'kind': 'truncate', 'pos': rng.randrange(0, n)})
    elif kind == 'extend':
        ops.append({'kind': 'extend', 'vals': [rng.randrange(256) for _ in range(rng.randint(1, 6))]})
    else:
        for _ in range(rng.randint(2, 3)):
            k2 = rng.choice(['flip', 'sub', 'delete', 'insert'])
            ops.append({'kind': k2, 'pos': rng.randrange(n * (8 if k2 == 'flip' else 1)), 'val': rng.randrange(256)})
    scn = mk(framing, decoder, frames, target, ops)
    # what the receiving loop does when the receive call raises: reset the framer (sync serial handler) or nothing
    scn['policy'] = rng.choice(['reset', 'keep'])
    return scn


def systematic(tier):
    unit, tid = 17, 0x0102
    for framing in rc.FRAMINGS:
        for decoder in ('server', 'client'):
            pdus = [p for p in rc.corpus(decoder) if len(p) <= (12 if tier == 'quick' else 40)]
            if framing == 'binary':
                pdus = [p for p in pdus if not rc.has_delim(codec.frame('binary', unit, p)[1:-1])]
            if tier == 'quick':
                pdus = pdus[::3]
            follower = {'u': unit, 'tid': tid + 1, 'pdu': (codec.req_write_reg(9, 0xBEEF) if decoder == 'server'
                                                           else codec.req_write_reg(9, 0xBEEF)).hex()}
            for p in pdus:
                fr = {'u': unit, 'tid': tid, 'pdu': p.hex()}
                n = len(codec.frame(framing, unit, p, tid=tid))
                for bit in range(n * 8):
                    yield mk(framing, decoder, [fr, follower], 0, [{'kind': 'flip', 'pos': bit}])
                for t in range(0, n):
                    yield mk(framing, decoder, [fr, follower], 0, [{'kind': 'truncate', 'pos': t}])
                if n <= 8:
                    for b1 in range(n * 8):
                        for b2 in range(b1 + 1, n * 8):
                            yield mk(framing, decoder, [fr, follower], 0, [{'kind': 'flip', 'pos': b1}, {'kind': 'flip', 'pos': b2}])


def execute(scn):
    framing = scn['framing']
    frames = [codec.frame(framing, f['u'], bytes.fromhex(f['pdu']), tid=f['tid']) for f in scn['frames']]
    chunks = list(frames)
    chunks[scn['target']] = apply_ops(frames[scn['target']], scn['ops'])
    changed = chunks[scn['target']] != frames[scn['target']]
    given = b''.join(chunks)
    res = rx.run({'framing': framing, 'decoder': scn['decoder'], 'chunks': [c.hex() for c in chunks] + [''],
                  'units': None, 'single': True, 'on_exception': scn.get('policy', 'reset')})
    kinds = sorted(set(o['kind'] for o in scn['ops']))
    out = {'violations': [], 'inconclusive': False, 'nontrivial': changed, 'digest': res.digest, 'shape': res.digest,
           'vtime': 0.0, 'steps': len(chunks), 'faults': {}, 'probes': {},
           'cell': '%s/%s/%s' % (framing, scn['decoder'], '+'.join(kinds))}
    for o in scn['ops']:
        out['faults'][o['kind']] = out['faults'].get(o['kind'], 0) + (1 if changed else 0)
    direction = 'req' if scn['decoder'] == 'server' else 'rsp'
    just = None
    for d in res.delivered:
        if just is None:
            just = receiver.justified_pdus(framing, given, direction)
        key_tid = d['tid'] if framing == 'tcp' else None
        if (d['unit'], key_tid, d['pdu']) in just:
            continue
        # say what was wrong with it
        why = 'no valid frame for it in the bytes given'
        if any(p == d['pdu'] for (_, _, p) in just):
            why = 'header fields differ from the frame that carries this PDU'
        elif framing == 'tcp':
            fn = codec.request_len if direction == 'req' else codec.response_len
            want = fn(d['pdu'] or b'')
            if want is None:
                why = 'MBAP length %d inconsistent with the PDU (shorter than its own count fields require)' % (len(d['pdu'] or b'') + 1)
            elif want != -1 and want != len(d['pdu'] or b''):
                why = 'MBAP length %d inconsistent with the PDU (its fields imply %d bytes)' % (len(d['pdu']) + 1, want + 1)
        if framing == 'ascii' and (why.startswith('no valid frame') or why.startswith('header')):
            import re
            for m in re.finditer(rb':([^:]*?)\r\n', given):
                if re.search(rb'[^0-9A-Fa-f]', m.group(1)):
                    why = 'non-hex character accepted inside an ASCII frame (int(.., 16) tolerates blanks/underscores)'
        sig = {'property': ID, 'framing': framing, 'decoder': scn['decoder'], 'class': 'unjustified-delivery',
               'corruption': '+'.join(kinds), 'why': ('mbap-length-inconsistent' if why.startswith('MBAP') else
                                                      'header-differs' if why.startswith('header') else
                                                      'ascii-non-hex-accepted' if why.startswith('non-hex') else 'no-valid-frame'),
               'delivered_as': d['cls'] if d['cls'] in ('IllegalFunctionRequest', 'ExceptionResponse') else 'message'}
        if framing == 'binary' and rc.has_delim(given):
            # the escaping finding is about delimiter bytes INSIDE a frame: between the first '{' and the last
            # '}' of a chunk (stray bytes in front of or behind a frame are not inside it)
            def interior(c):
                a, b = c.find(b'{'), c.rfind(b'}')
                return c[a + 1:b] if 0 <= a < b else b''
            sig['binary_delim'] = any(rc.has_delim(interior(c)) for c in chunks)
        out['violations'].append({'sig': sig, 'msg': 'delivered %s unit=%s tid=%s pdu=%s: %s; given=%s'
                                  % (d['cls'], d['unit'], d['tid'], (d['pdu'] or b'').hex()[:40], why, given.hex()[:80])})
    out['probes']['delivered_after_corruption'] = len(res.delivered)
    out['probes']['exceptions_from_receive'] = len(res.exceptions)
    return out


def shrink_steps(scn):
    if len(scn['frames']) > 1:
        for i in range(len(scn['frames'])):
            if i == scn['target']:
                continue
            s = copy.deepcopy(scn)
            del s['frames'][i]
            if i < scn['target']:
                s['target'] -= 1
            yield s
    if len(scn['ops']) > 1:
        for i in range(len(scn['ops'])):
            s = copy.deepcopy(scn)
            del s['ops'][i]
            yield s
