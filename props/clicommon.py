"""Shared generator pieces for the client-side properties (C08, C13, C14, C15) on H-CLI."""
import copy

from ref import codec
from harness import cli
from engine import shrink as sh

CLIENT_KINDS = [('tcp', 'tcp'), ('tcp', 'tcp'), ('udp', 'tcp'), ('serial', 'rtu'), ('serial', 'rtu'), ('serial', 'ascii'),
                ('serial', 'binary'), ('tcp', 'rtu'), ('tcp', 'ascii'), ('tcp', 'binary'), ('tls', 'tls'), ('serial', 'tcp')]

FNS = ['read_coils', 'read_discrete_inputs', 'read_holding_registers', 'read_input_registers', 'write_coil',
       'write_register', 'write_coils', 'write_registers', 'mask_write_register', 'readwrite_registers',
       'diag_query_data', 'read_exception_status']

STUBS = {
    'real': ['pymodbus.client.sync (ModbusTcpClient / ModbusUdpClient / ModbusSerialClient / ModbusTlsClient: connect, close, _send, _recv, _wait_for_data)',
             'pymodbus.transaction (ModbusTransactionManager.execute/_transact/_recv, Dict/FifoTransactionManager, retry loop)',
             'pymodbus.framer.* incl. RTU sendPacket silent-interval state machine', 'pymodbus.factory ClientDecoder, *_message',
             'pymodbus.client.common mixin'],
    'stub': ['wall clock / sleep (virtual clock; every clock read advances it by cpu_step)',
             'OS sockets, select, pyserial port (SimSocket, sim_select, SimSerial; no inter-byte timeout: pyserial maps < 100 ms to none)',
             'TLS (StubSSLContext.wrap_socket returns the simulated socket: no handshake, no records)',
             'threading.RLock in the transaction manager (SimRLock: contention parks the caller task in the scheduler)',
             'caller threads (baton-passed OS threads; pre-emption at every transport call, optionally at selected line events)',
             'the server: scripted reference peer built on ref/codec.py (per-attempt script: reply, exception, nothing, partial, garbage, wrong unit/tid/fc, stale first, late, duplicate, reset, close)'],
}


def no_delim(v):
    return 0x7B not in v.to_bytes(2, 'big') and 0x7D not in v.to_bytes(2, 'big')


class OpGen(object):
    """Generates ops with pairwise distinct request PDUs and unique reply values."""

    def __init__(self, rng, framing):
        self.rng = rng
        self.framing = framing
        self.addr = rng.randrange(0, 200)
        self.val = rng.randrange(1, 40000)

    def next_addr(self):
        while True:
            self.addr = (self.addr + self.rng.randint(1, 9)) & 0xFFFF
            if self.framing != 'binary' or no_delim(self.addr):
                return self.addr

    def uval(self):
        while True:
            self.val = (self.val + 1) & 0xFFFF or 1
            if self.framing != 'binary' or no_delim(self.val):
                return self.val

    def op(self, fn=None, unit=None, exc_rate=0.15, maxn=None):
        rng = self.rng
        fn = fn or rng.choice(FNS)
        if fn == 'read_exception_status':
            # the only request without any field: keep request PDUs pairwise distinct within a
            # scenario (the scripted peer tells transactions apart by content)
            if getattr(self, '_used_res', False):
                fn = 'read_holding_registers'
            self._used_res = True
        a = self.next_addr()
        unit = unit if unit is not None else 1
        reply = {}
        if fn in ('read_coils', 'read_discrete_inputs'):
            n = rng.choice([1, 7, 8, 9, 16, 33, rng.randint(1, maxn or 300)])
            args = {'address': a, 'count': n}
            bits = [bool(rng.getrandbits(1)) for _ in range(n)]
            if self.framing == 'binary':
                bits = self._fix_bits(bits)
            reply = {'bits': bits}
        elif fn in ('read_holding_registers', 'read_input_registers'):
            n = rng.choice([1, 2, 5, rng.randint(1, maxn or 60)])
            args = {'address': a, 'count': n}
            reply = {'regs': [self.uval() for _ in range(n)]}
        elif fn == 'write_coil':
            args = {'address': a, 'value': bool(rng.getrandbits(1))}
        elif fn == 'write_register':
            args = {'address': a, 'value': self.uval()}
        elif fn == 'write_coils':
            n = rng.choice([1, 8, 9, rng.randint(1, maxn or 100)])
            bits = [bool(rng.getrandbits(1)) for _ in range(n)]
            if self.framing == 'binary':
                bits = self._fix_bits(bits)
            args = {'address': a, 'values': bits}
        elif fn == 'write_registers':
            n = rng.choice([1, 2, rng.randint(1, maxn or 40)])
            args = {'address': a, 'values': [self.uval() for _ in range(n)]}
        elif fn == 'mask_write_register':
            args = {'address': a, 'and_mask': self.uval(), 'or_mask': self.uval()}
        elif fn == 'readwrite_registers':
            n = rng.randint(1, maxn or 30)
            args = {'read_address': a, 'read_count': n, 'write_address': self.next_addr(),
                    'write_registers': [self.uval() for _ in range(rng.randint(1, 10))]}
            reply = {'regs': [self.uval() for _ in range(n)]}
        elif fn == 'diag_query_data':
            args = {'data': self.uval().to_bytes(2, 'big').hex()}
        elif fn == 'read_exception_status':
            args = {}
            reply = {'raw': bytes([7, rng.choice([0, 1, 0x55, 0x6D])]).hex()}
        else:
            raise ValueError(fn)
        if rng.random() < exc_rate:
            reply = {'exc': rng.choice([1, 2, 3, 4, 6, 10, 11])}
        return {'fn': fn, 'args': args, 'unit': unit, 'reply': reply}

    @staticmethod
    def _fix_bits(bits):
        # avoid packed bytes equal to '{' / '}' on the binary framing
        for i in range(0, len(bits), 8):
            byte = sum((1 << j) for j, b in enumerate(bits[i:i + 8]) if b)
            if byte in (0x7B, 0x7D):
                bits[i] = not bits[i]
        return bits


def frame_has_delim(framing, unit, pdu):
    if framing != 'binary':
        return False
    fr = codec.frame('binary', unit, pdu)
    return 0x7B in fr[1:-1] or 0x7D in fr[1:-1]


def binary_delim(scn):
    c = scn['client']
    if c['framing'] != 'binary':
        return False
    for ops in scn['callers']:
        for op in ops:
            u = op.get('unit', 1)
            if frame_has_delim('binary', u, cli.request_pdu(op)) or frame_has_delim('binary', u, cli.reply_pdu(op)):
                return True
    return False


def result_summary(r):
    if r is None:
        return None
    d = {'cls': type(r).__name__}
    for k in ('function_code', 'exception_code', 'transaction_id', 'unit_id', 'address', 'value', 'count',
              'and_mask', 'or_mask', 'status'):
        if hasattr(r, k):
            v = getattr(r, k)
            if isinstance(v, (int, bool)) or v is None:
                d[k] = v
    if hasattr(r, 'registers'):
        d['registers'] = list(r.registers)
    if hasattr(r, 'bits'):
        d['bits'] = [bool(b) for b in r.bits]
    if hasattr(r, 'message') and isinstance(getattr(r, 'message'), (bytes, list, int)):
        m = r.message
        d['message'] = m.hex() if isinstance(m, bytes) else m
    return d


def is_error_object(r):
    from pymodbus.exceptions import ModbusIOException
    from pymodbus.pdu import ExceptionResponse
    return isinstance(r, (ModbusIOException, ExceptionResponse))


def values_match(op, r):
    """Does the returned object carry exactly what the (correct) reply said?  -> (ok, why)"""
    from pymodbus.pdu import ExceptionResponse
    rep = op.get('reply') or {}
    fc = cli.request_pdu(op)[0]
    if 'exc' in rep:
        if not isinstance(r, ExceptionResponse):
            return False, 'expected ExceptionResponse, got %s' % type(r).__name__
        if r.function_code != (fc | 0x80) or r.exception_code != rep['exc']:
            return False, 'exception fc/code %s/%s, sent %s/%s' % (r.function_code, r.exception_code, fc | 0x80, rep['exc'])
        return True, ''
    if is_error_object(r):
        return False, 'error object %s for a normal reply' % type(r).__name__
    if getattr(r, 'function_code', None) != fc:
        return False, 'function code %s, request was %s' % (getattr(r, 'function_code', None), fc)
    a = op['args']
    if 'regs' in rep:
        if list(getattr(r, 'registers', [])) != rep['regs']:
            return False, 'registers %s, sent %s' % (list(getattr(r, 'registers', []))[:6], rep['regs'][:6])
    elif 'bits' in rep:
        got = [bool(b) for b in getattr(r, 'bits', [])][:len(rep['bits'])]
        if got != rep['bits']:
            return False, 'bits differ from what the server sent'
    elif 'raw' in rep:
        pass
    else:
        fn = op['fn']
        if fn == 'write_coil' and (r.address != a['address'] or bool(r.value) != bool(a['value'])):
            return False, 'echo %s/%s, sent %s/%s' % (r.address, r.value, a['address'], a['value'])
        if fn == 'write_register' and (r.address != a['address'] or r.value != a['value']):
            return False, 'echo %s/%s, sent %s/%s' % (r.address, r.value, a['address'], a['value'])
        if fn in ('write_coils', 'write_registers') and (r.address != a['address'] or r.count != len(a['values'])):
            return False, 'echo %s/%s, sent %s/%s' % (r.address, r.count, a['address'], len(a['values']))
        if fn == 'mask_write_register' and (r.address, r.and_mask, r.or_mask) != (a['address'], a['and_mask'], a['or_mask']):
            return False, 'mask echo differs'
    return True, ''


def leftover_input(res, call):
    """Bytes the peer had already sent on the link this call used and that the client had not
    consumed when the call put its request on the wire (stale / duplicate / late replies,
    garbage).  Coordinate for signatures: the client never discards such input."""
    if res.peer is None:
        return False
    task = 'caller%d' % call['caller']
    first = None
    for (seq, t, kind, name, data) in res.io:
        if kind == 'send' and t == task and seq > call['invoke_seq'] and name.startswith('cli-link'):
            first = (seq, name)
            break
    if first is None:
        # the call never got a request out: judge the newest link as of the invocation
        names = [name for (seq, t, kind, name, data) in res.io if name.startswith('cli-link') and seq < call['invoke_seq']]
        if not names:
            return False
        first = (call['invoke_seq'], names[-1])
    link = int(first[1][len('cli-link'):])
    sent = sum(n for (sq, l, n) in res.peer.sent_log if l == link and sq < first[0])
    got = sum(len(d) for (sq, t, kind, name, d) in res.io if kind == 'recv' and name == first[1] and sq < first[0])
    if sent > got:
        return True
    # replies can still be in flight (or not even produced yet when the client is one reply behind):
    # an earlier transaction on this same link whose script put bytes on it that its own call did
    # not have to consume leaves the link in that state
    extra = {'stale_first', 'dup', 'late', 'garbage', 'partial', 'wrong_tid', 'wrong_unit', 'wrong_fc'}
    ops = getattr(res, 'scn_callers', None)
    if ops is None:
        return False
    for other in res.calls:
        if other is call or other['caller'] != call['caller'] or other['index'] >= call['index']:
            continue
        used = [name for (seq, t, kind, name, data) in res.io
                if kind == 'send' and t == task and other['invoke_seq'] < seq < other.get('return_seq', 1 << 60)]
        if first[1] in used:
            acts = set(a['act'] for a in (ops[other['caller']][other['index']].get('script') or []))
            if acts & extra:
                return True
    return False


def base_outcome(scn, res):
    c = scn['client']
    probes = {}
    for kname, v in res.counters.items():
        if kname.startswith('peer_') or kname in ('lock_contended', 'sleep', 'line_preempt', 'local_echo', 'spin_fast_forward') or kname.startswith('connect_'):
            probes[kname] = v
    return {'violations': [], 'inconclusive': False, 'nontrivial': True, 'digest': res.digest,
            'shape': res.shape + ':' + c['kind'] + ':' + c['framing'], 'vtime': res.vtime, 'steps': res.steps,
            'faults': {}, 'probes': probes, 'cell': '%s/%s' % (c['kind'], c['framing'])}


def shrink_steps(scn):
    if len(scn['callers']) > 1:
        for i in range(len(scn['callers'])):
            s = copy.deepcopy(scn)
            del s['callers'][i]
            yield s
    for ci, ops in enumerate(scn['callers']):
        for cand in sh.without_chunks(ops):
            if not cand and len(scn['callers']) == 1:
                continue
            s = copy.deepcopy(scn)
            s['callers'][ci] = cand
            yield s
    for ci, ops in enumerate(scn['callers']):
        for oi, op in enumerate(ops):
            sc = op.get('script') or []
            if sc:
                for cand in sh.without_chunks(sc):
                    s = copy.deepcopy(scn)
                    s['callers'][ci][oi]['script'] = cand
                    yield s
                for ai, att in enumerate(sc):
                    if att.get('cuts'):
                        s = copy.deepcopy(scn)
                        s['callers'][ci][oi]['script'][ai].pop('cuts')
                        yield s
    if scn.get('connect_script'):
        s = copy.deepcopy(scn)
        s.pop('connect_script')
        yield s
    if scn.get('tid_start'):
        s = copy.deepcopy(scn)
        s.pop('tid_start')
        yield s
    kw = scn['client'].get('kwargs') or {}
    for key in ('retry_on_empty', 'retry_on_invalid', 'backoff', 'broadcast_enable', 'strict', 'baudrate'):
        if key in kw:
            s = copy.deepcopy(scn)
            s['client']['kwargs'].pop(key)
            yield s
    sched = scn.get('sched') or {}
    if sched.get('choices'):
        ch = sched['choices']
        for cand in sh.without_chunks(ch):
            s = copy.deepcopy(scn)
            s['sched']['choices'] = cand
            yield s
        for i, c in enumerate(ch):
            if c:
                s = copy.deepcopy(scn)
                s['sched']['choices'][i] = 0
                yield s
    if sched.get('preempt_lines'):
        for cand in sh.without_chunks(sched['preempt_lines']):
            s = copy.deepcopy(scn)
            s['sched']['preempt_lines'] = cand
            yield s
