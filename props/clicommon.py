"""Shared generator pieces for the client-side properties (C08, C13, C14, C15) on H-CLI."""
import copy

from ref import codec
from harness import cli
from engine import shrink as sh

CLIENT_KINDS = [('tcp', 'tcp'), ('tcp', 'tcp'), ('udp', 'tcp'), ('serial', 'rtu'), ('serial', 'rtu'), ('serial', 'ascii'),
                ('serial', 'binary'), ('tcp', 'rtu'), ('tcp', 'ascii'), ('tcp', 'binary'), ('tls', 'tls'), ('serial', 'tcp')]

FNS = ['read_coils', 'read_discrete_inputs', 'read_holding_registers', 'read_input_registers', 'write_coil',
       'write_register', 'write_coils', 'write_registers', 'mask_write_register', 'readwrite_registers',
       'diag_query_data', 'read_exception_status']

# requests that have no mixin method and go through client.execute(): the rest of "every request type" (C08)
XFNS = ['diag', 'diag', 'get_comm_event_counter', 'get_comm_event_log', 'report_slave_id', 'read_file_record',
        'write_file_record', 'read_fifo_queue', 'read_device_information']
# diagnostic sub-functions that are answered (4 = force listen only: never answered, by definition)
DIAG_ECHO = (1, 3, 10, 20)                     # the normal response echoes the request
DIAG_VALUE = (2, 11, 12, 13, 14, 15, 16, 17, 18)   # the response carries a 16-bit counter / register

STUBS = {
    'real': ['pymodbus.client.sync (ModbusTcpClient / ModbusUdpClient / ModbusSerialClient / ModbusTlsClient: connect, close, _send, _recv, _wait_for_data)',
             'pymodbus.transaction (ModbusTransactionManager.execute/_transact/_recv, Dict/FifoTransactionManager, retry loop)',
             'pymodbus.framer.* incl. RTU sendPacket silent-interval state machine', 'pymodbus.factory ClientDecoder, *_message',
             'pymodbus.client.common mixin'],
    'stub': ['wall clock / sleep (virtual clock; every clock read advances it by cpu_step)',
             'OS sockets, select, pyserial port (SimSocket, sim_select, SimSerial; no inter-byte timeout: pyserial maps < 100 ms to none)',
             'TLS (StubSSLContext.wrap_socket returns the simulated socket: no handshake, no records)',
             'threading.RLock in the transaction manager (SimRLock: contention parks the caller task in the scheduler)',
             'caller threads (baton-passed OS threads; pre-emption at every transport call, optionally at selected line events)',
             'the server: scripted reference peer built on ref/codec.py (per-attempt script: reply, exception, nothing, partial, garbage, wrong unit/tid/fc, stale first, late, duplicate, reset, close)'],
}


def no_delim(v):
    return 0x7B not in v.to_bytes(2, 'big') and 0x7D not in v.to_bytes(2, 'big')


class OpGen(object):
    """Generates ops with pairwise distinct request PDUs and unique reply values."""

    def __init__(self, rng, framing, extended=0.0):
        self.rng = rng
        self.framing = framing
        self.extended = extended        # share of ops drawn from the extended request set
        self._used = set()
        self.addr = rng.randrange(0, 200)
        self.val = rng.randrange(1, 40000)

    def next_addr(self):
        while True:
            self.addr = (self.addr + self.rng.randint(1, 9)) & 0xFFFF
            if self.framing != 'binary' or no_delim(self.addr):
                return self.addr

    def uval(self):
        while True:
            self.val = (self.val + 1) & 0xFFFF or 1
            if self.framing != 'binary' or no_delim(self.val):
                return self.val

    def op(self, fn=None, unit=None, exc_rate=0.15, maxn=None):
        rng = self.rng
        if fn is None and self.extended and rng.random() < self.extended:
            for _ in range(20):
                x = self.xop(rng.choice(XFNS), unit if unit is not None else 1, exc_rate)
                if x is not None:
                    return x
        fn = fn or rng.choice(FNS)
        if fn in XFNS:
            x = self.xop(fn, unit if unit is not None else 1, exc_rate)
            if x is not None:
                return x
            fn = 'read_holding_registers'
        if fn == 'read_exception_status':
            # the only request without any field: keep request PDUs pairwise distinct within a
            # scenario (the scripted peer tells transactions apart by content)
            if getattr(self, '_used_res', False):
                fn = 'read_holding_registers'
            self._used_res = True
        a = self.next_addr()
        unit = unit if unit is not None else 1
        reply = {}
        if fn in ('read_coils', 'read_discrete_inputs'):
            n = rng.choice([1, 7, 8, 9, 16, 33, rng.randint(1, maxn or 300)])
            args = {'address': a, 'count': n}
            bits = [bool(rng.getrandbits(1)) for _ in range(n)]
            if self.framing == 'binary':
                bits = self._fix_bits(bits)
            reply = {'bits': bits}
        elif fn in ('read_holding_registers', 'read_input_registers'):
            n = rng.choice([1, 2, 5, rng.randint(1, maxn or 60)])
            args = {'address': a, 'count': n}
            reply = {'regs': [self.uval() for _ in range(n)]}
        elif fn == 'write_coil':
            args = {'address': a, 'value': bool(rng.getrandbits(1))}
        elif fn == 'write_register':
            args = {'address': a, 'value': self.uval()}
        elif fn == 'write_coils':
            n = rng.choice([1, 8, 9, rng.randint(1, maxn or 100)])
            bits = [bool(rng.getrandbits(1)) for _ in range(n)]
            if self.framing == 'binary':
                bits = self._fix_bits(bits)
            args = {'address': a, 'values': bits}
        elif fn == 'write_registers':
            n = rng.choice([1, 2, rng.randint(1, maxn or 40)])
            args = {'address': a, 'values': [self.uval() for _ in range(n)]}
        elif fn == 'mask_write_register':
            args = {'address': a, 'and_mask': self.uval(), 'or_mask': self.uval()}
        elif fn == 'readwrite_registers':
            n = rng.randint(1, maxn or 30)
            args = {'read_address': a, 'read_count': n, 'write_address': self.next_addr(),
                    'write_registers': [self.uval() for _ in range(rng.randint(1, 10))]}
            reply = {'regs': [self.uval() for _ in range(n)]}
        elif fn == 'diag_query_data':
            args = {'data': self.uval().to_bytes(2, 'big').hex()}
        elif fn == 'read_exception_status':
            args = {}
            reply = {'raw': bytes([7, rng.choice([0, 1, 0x55, 0x6D])]).hex()}
        else:
            raise ValueError(fn)
        if rng.random() < exc_rate:
            reply = {'exc': rng.choice([1, 2, 3, 4, 6, 10, 11])}
        return {'fn': fn, 'args': args, 'unit': unit, 'reply': reply}

    def _bytes(self, n):
        out = bytearray()
        while len(out) < n:
            out += self.uval().to_bytes(2, 'big')
        return bytes(out[:n])

    def xop(self, fn, unit, exc_rate):
        """An op of the extended request set with a spec-conformant reply ('raw') and the values the
        returned object has to carry ('expect'); None if this draw is not usable (field-less request already
        used in this scenario, delimiter bytes on the binary framing)."""
        rng = self.rng
        if fn in cli.FIELDLESS:
            if fn in self._used:
                return None
        args, expect, raw = {}, {}, None
        if fn == 'diag':
            sub = rng.choice(DIAG_ECHO + DIAG_VALUE + (21, 21))
            if sub in DIAG_ECHO:
                data = {1: rng.choice([0x0000, 0xFF00]), 3: rng.choice([0x0A00, 0x0D00, 0x2C00]), 10: 0, 20: 0}[sub]
                args = {'sub': sub, 'data': data}
                expect = {'sub': sub, 'words': [data]}
            elif sub in DIAG_VALUE:
                v = self.uval()
                args = {'sub': sub, 'data': 0}
                raw = bytes([8, 0, sub]) + v.to_bytes(2, 'big')
                expect = {'sub': sub, 'words': [v]}
            else:
                oper = rng.choice([3, 4])
                args = {'sub': 21, 'data': oper}
                if oper == 4:
                    expect = {'sub': 21, 'words': [4]}     # clear: echo
                else:
                    words = [self.uval() for _ in range(54)]
                    raw = bytes([8, 0, 21, 0, 3, 0, 108]) + b''.join(w.to_bytes(2, 'big') for w in words)
                    expect = {'sub': 21, 'words': [3, 108] + words}
        elif fn == 'get_comm_event_counter':
            st, cnt = rng.choice([0x0000, 0xFFFF]), self.uval()
            raw = bytes([11]) + st.to_bytes(2, 'big') + cnt.to_bytes(2, 'big')
            expect = {'busy': st == 0xFFFF, 'count': cnt}
        elif fn == 'get_comm_event_log':
            st, ec, mc = rng.choice([0x0000, 0xFFFF]), self.uval(), self.uval()
            ev = list(self._bytes(rng.choice([0, 1, 2, 7, rng.randint(0, 64)])))
            raw = bytes([12, 6 + len(ev)]) + st.to_bytes(2, 'big') + ec.to_bytes(2, 'big') + mc.to_bytes(2, 'big') + bytes(ev)
            expect = {'busy': st == 0xFFFF, 'event_count': ec, 'message_count': mc, 'events': ev}
        elif fn == 'report_slave_id':
            ident = self._bytes(rng.choice([1, 2, 5, rng.randint(1, 40)]))
            run = rng.choice([0x00, 0xFF])
            raw = bytes([17, len(ident) + 1]) + ident + bytes([run])
            expect = {'ident': ident.hex(), 'run': run == 0xFF}
        elif fn == 'read_fifo_queue':
            vals = [self.uval() for _ in range(rng.choice([0, 1, 2, 5, 31, rng.randint(0, 31)]))]
            args = {'address': self.next_addr()}
            raw = bytes([24]) + (2 + 2 * len(vals)).to_bytes(2, 'big') + len(vals).to_bytes(2, 'big') + \
                b''.join(v.to_bytes(2, 'big') for v in vals)
            expect = {'values': vals}
        elif fn == 'read_file_record':
            recs = [[rng.randint(1, 9), self.next_addr() % 10000, rng.randint(1, 6)] for _ in range(rng.randint(1, 3))]
            datas = [self._bytes(2 * n) for (_, _, n) in recs]
            body = b''.join(bytes([len(d) + 1, 6]) + d for d in datas)
            args = {'records': recs}
            raw = bytes([20, len(body)]) + body
            expect = {'record_data': [d.hex() for d in datas]}
        elif fn == 'write_file_record':
            recs = [[rng.randint(1, 9), self.next_addr() % 10000, self._bytes(2 * rng.randint(1, 6)).hex()]
                    for _ in range(rng.randint(1, 3))]
            args = {'records': recs}
            expect = {'records': recs}           # echo
        elif fn == 'read_device_information':
            code = rng.choice([1, 2, 3, 4])
            first = {1: 0, 2: 3, 3: 0x80, 4: rng.choice([0, 1, 2, 0x80])}[code]
            nobj = 1 if code == 4 else rng.randint(1, 4)
            objs = [[first + i, self._bytes(rng.choice([1, 3, 8, rng.randint(1, 30)])).hex()] for i in range(nobj)]
            more = rng.choice([0x00, 0x00, 0xFF]) if code != 4 else 0
            nxt = (objs[-1][0] + 1) if more else 0
            conf = rng.choice([0x01, 0x02, 0x03, 0x81, 0x82, 0x83])
            args = {'read_code': code, 'object_id': first}
            raw = bytes([43, 14, code, conf, more, nxt, nobj]) + \
                b''.join(bytes([i, len(bytes.fromhex(v))]) + bytes.fromhex(v) for (i, v) in objs)
            expect = {'read_code': code, 'conformity': conf, 'more': more, 'next': nxt, 'objects': objs}
        else:
            raise ValueError(fn)
        reply = {'expect': expect}
        if raw is not None:
            reply['raw'] = raw.hex()
        op = {'fn': fn, 'args': args, 'unit': unit, 'reply': reply}
        if rng.random() < exc_rate:
            op['reply'] = {'exc': rng.choice([1, 2, 3, 4, 6, 10, 11])}
        if self.framing == 'binary' and (frame_has_delim('binary', unit, cli.request_pdu(op))
                                         or frame_has_delim('binary', unit, cli.reply_pdu(op))):
            return None
        key = cli.request_pdu(op).hex()
        if key in self._used:
            return None         # request PDUs stay pairwise distinct within a scenario
        self._used.add(key)
        self._used.add(fn)
        return op

    @staticmethod
    def _fix_bits(bits):
        # avoid packed bytes equal to '{' / '}' on the binary framing
        for i in range(0, len(bits), 8):
            byte = sum((1 << j) for j, b in enumerate(bits[i:i + 8]) if b)
            if byte in (0x7B, 0x7D):
                bits[i] = not bits[i]
        return bits


def frame_has_delim(framing, unit, pdu):
    if framing != 'binary':
        return False
    fr = codec.frame('binary', unit, pdu)
    return 0x7B in fr[1:-1] or 0x7D in fr[1:-1]


def binary_delim(scn):
    c = scn['client']
    if c['framing'] != 'binary':
        return False
    for ops in scn['callers']:
        for op in ops:
            u = op.get('unit', 1)
            if frame_has_delim('binary', u, cli.request_pdu(op)) or frame_has_delim('binary', u, cli.reply_pdu(op)):
                return True
    return False


def result_summary(r):
    if r is None:
        return None
    d = {'cls': type(r).__name__}
    for k in ('function_code', 'exception_code', 'transaction_id', 'unit_id', 'address', 'value', 'count',
              'and_mask', 'or_mask', 'status'):
        if hasattr(r, k):
            v = getattr(r, k)
            if isinstance(v, (int, bool)) or v is None:
                d[k] = v
    if hasattr(r, 'registers'):
        d['registers'] = list(r.registers)
    if hasattr(r, 'bits'):
        d['bits'] = [bool(b) for b in r.bits]
    if hasattr(r, 'message') and isinstance(getattr(r, 'message'), (bytes, list, int)):
        m = r.message
        d['message'] = m.hex() if isinstance(m, bytes) else m
    return d


def is_error_object(r):
    from pymodbus.exceptions import ModbusIOException
    from pymodbus.pdu import ExceptionResponse
    return isinstance(r, (ModbusIOException, ExceptionResponse))


def values_match(op, r):
    """Does the returned object carry exactly what the (correct) reply said?  -> (ok, why)"""
    from pymodbus.pdu import ExceptionResponse
    rep = op.get('reply') or {}
    fc = cli.request_pdu(op)[0]
    if 'exc' in rep:
        if not isinstance(r, ExceptionResponse):
            return False, 'expected ExceptionResponse, got %s' % type(r).__name__
        if r.function_code != (fc | 0x80) or r.exception_code != rep['exc']:
            return False, 'exception fc/code %s/%s, sent %s/%s' % (r.function_code, r.exception_code, fc | 0x80, rep['exc'])
        return True, ''
    if is_error_object(r):
        return False, 'error object %s for a normal reply' % type(r).__name__
    if getattr(r, 'function_code', None) != fc:
        return False, 'function code %s, request was %s' % (getattr(r, 'function_code', None), fc)
    a = op['args']
    if 'regs' in rep:
        if list(getattr(r, 'registers', [])) != rep['regs']:
            return False, 'registers %s, sent %s' % (list(getattr(r, 'registers', []))[:6], rep['regs'][:6])
    elif 'bits' in rep:
        got = [bool(b) for b in getattr(r, 'bits', [])][:len(rep['bits'])]
        if got != rep['bits']:
            return False, 'bits differ from what the server sent'
    elif 'expect' in rep:
        return expect_match(op['fn'], rep['expect'], r)
    elif 'raw' in rep:
        pass
    else:
        fn = op['fn']
        if fn == 'write_coil' and (r.address != a['address'] or bool(r.value) != bool(a['value'])):
            return False, 'echo %s/%s, sent %s/%s' % (r.address, r.value, a['address'], a['value'])
        if fn == 'write_register' and (r.address != a['address'] or r.value != a['value']):
            return False, 'echo %s/%s, sent %s/%s' % (r.address, r.value, a['address'], a['value'])
        if fn in ('write_coils', 'write_registers') and (r.address != a['address'] or r.count != len(a['values'])):
            return False, 'echo %s/%s, sent %s/%s' % (r.address, r.count, a['address'], len(a['values']))
        if fn == 'mask_write_register' and (r.address, r.and_mask, r.or_mask) != (a['address'], a['and_mask'], a['or_mask']):
            return False, 'mask echo differs'
    return True, ''


def _words(m):
    if isinstance(m, (bytes, bytearray)):
        m = bytes(m)
        return [(m[i] << 8) | m[i + 1] for i in range(0, len(m) - 1, 2)]
    if isinstance(m, (list, tuple)):
        return [int(x) for x in m]
    if isinstance(m, int):
        return [m]
    return m


def expect_match(fn, ex, r):
    """Extended request set: does the returned object carry the values of the reply the server sent?"""
    try:
        if fn == 'diag':
            if getattr(r, 'sub_function_code', None) != ex['sub']:
                return False, 'sub-function %s, sent %s' % (getattr(r, 'sub_function_code', None), ex['sub'])
            if _words(r.message) != ex['words']:
                return False, 'diagnostic data %s, sent %s' % (str(_words(r.message))[:40], str(ex['words'])[:40])
        elif fn == 'get_comm_event_counter':
            if r.count != ex['count'] or bool(r.status) != (not ex['busy']):
                return False, 'event counter %s/ready=%s, sent %s/busy=%s' % (r.count, r.status, ex['count'], ex['busy'])
        elif fn == 'get_comm_event_log':
            got = (bool(r.status), r.event_count, r.message_count, [int(e) for e in r.events])
            want = (not ex['busy'], ex['event_count'], ex['message_count'], ex['events'])
            if got != want:
                return False, 'event log %s, sent %s' % (str(got)[:60], str(want)[:60])
        elif fn == 'report_slave_id':
            ident = bytes(r.identifier)
            # the identifier is device specific; the library hands over the raw bytes after the byte count
            if not ident.startswith(bytes.fromhex(ex['ident'])) or bool(r.status) != ex['run']:
                return False, 'slave id %s run=%s, sent %s run=%s' % (ident.hex()[:20], r.status, ex['ident'][:20], ex['run'])
        elif fn == 'read_fifo_queue':
            if [int(v) for v in r.values] != ex['values']:
                return False, 'fifo values %s, sent %s' % (str(list(r.values))[:40], str(ex['values'])[:40])
        elif fn == 'read_file_record':
            got = [bytes(x.record_data).hex() for x in r.records]
            if got != ex['record_data']:
                return False, 'file records %s, sent %s' % (str(got)[:50], str(ex['record_data'])[:50])
        elif fn == 'write_file_record':
            got = [[x.file_number, x.record_number, bytes(x.record_data).hex()] for x in r.records]
            if got != [list(x) for x in ex['records']]:
                return False, 'file record echo %s, sent %s' % (str(got)[:50], str(ex['records'])[:50])
        elif fn == 'read_device_information':
            got = (r.read_code, r.conformity, r.more_follows, r.next_object_id,
                   sorted([int(k), bytes(v).hex()] for k, v in r.information.items()))
            want = (ex['read_code'], ex['conformity'], ex['more'], ex['next'], sorted([int(k), v] for k, v in ex['objects']))
            if got != want:
                return False, 'device information %s, sent %s' % (str(got)[:70], str(want)[:70])
    except Exception as e:      # an attribute the class documents is missing or of another shape
        return False, 'returned %s does not carry the reply fields (%s: %s)' % (type(r).__name__, type(e).__name__, e)
    return True, ''


def leftover_input(res, call):
    """Bytes the peer had already sent on the link this call used and that the client had not
    consumed when the call put its request on the wire (stale / duplicate / late replies,
    garbage).  Coordinate for signatures: the client never discards such input."""
    if res.peer is None:
        return False
    task = 'caller%d' % call['caller']
    first = None
    for (seq, t, kind, name, data) in res.io:
        if kind == 'send' and t == task and seq > call['invoke_seq'] and name.startswith('cli-link'):
            first = (seq, name)
            break
    if first is None:
        # the call never got a request out: judge the newest link as of the invocation
        names = [name for (seq, t, kind, name, data) in res.io if name.startswith('cli-link') and seq < call['invoke_seq']]
        if not names:
            return False
        first = (call['invoke_seq'], names[-1])
    link = int(first[1][len('cli-link'):])
    sent = sum(n for (sq, l, n) in res.peer.sent_log if l == link and sq < first[0])
    got = sum(len(d) for (sq, t, kind, name, d) in res.io if kind == 'recv' and name == first[1] and sq < first[0])
    if sent > got:
        return True
    # replies can still be in flight (or not even produced yet when the client is one reply behind):
    # an earlier transaction on this same link whose script put bytes on it that its own call did
    # not have to consume leaves the link in that state
    extra = {'stale_first', 'dup', 'late', 'garbage', 'partial', 'wrong_tid', 'wrong_unit', 'wrong_fc'}
    ops = getattr(res, 'scn_callers', None)
    if ops is None:
        return False
    for other in res.calls:
        if other is call or other['caller'] != call['caller'] or other['index'] >= call['index']:
            continue
        used = [name for (seq, t, kind, name, data) in res.io
                if kind == 'send' and t == task and other['invoke_seq'] < seq < other.get('return_seq', 1 << 60)]
        if first[1] in used:
            acts = set(a['act'] for a in (ops[other['caller']][other['index']].get('script') or []))
            if acts & extra:
                return True
    return False


def base_outcome(scn, res):
    c = scn['client']
    probes = {}
    for kname, v in res.counters.items():
        if kname.startswith('peer_') or kname in ('lock_contended', 'sleep', 'line_preempt', 'local_echo', 'spin_fast_forward') or kname.startswith('connect_'):
            probes[kname] = v
    return {'violations': [], 'inconclusive': False, 'nontrivial': True, 'digest': res.digest,
            'shape': res.shape + ':' + c['kind'] + ':' + c['framing'], 'vtime': res.vtime, 'steps': res.steps,
            'faults': {}, 'probes': probes, 'cell': '%s/%s' % (c['kind'], c['framing'])}


def shrink_steps(scn):
    if len(scn['callers']) > 1:
        for i in range(len(scn['callers'])):
            s = copy.deepcopy(scn)
            del s['callers'][i]
            yield s
    for ci, ops in enumerate(scn['callers']):
        for cand in sh.without_chunks(ops):
            if not cand and len(scn['callers']) == 1:
                continue
            s = copy.deepcopy(scn)
            s['callers'][ci] = cand
            yield s
    for ci, ops in enumerate(scn['callers']):
        for oi, op in enumerate(ops):
            sc = op.get('script') or []
            if sc:
                for cand in sh.without_chunks(sc):
                    s = copy.deepcopy(scn)
                    s['callers'][ci][oi]['script'] = cand
                    yield s
                for ai, att in enumerate(sc):
                    if att.get('cuts'):
                        s = copy.deepcopy(scn)
                        s['callers'][ci][oi]['script'][ai].pop('cuts')
                        yield s
    if scn.get('connect_script'):
        s = copy.deepcopy(scn)
        s.pop('connect_script')
        yield s
    if scn.get('tid_start'):
        s = copy.deepcopy(scn)
        s.pop('tid_start')
        yield s
    kw = scn['client'].get('kwargs') or {}
    for key in ('retry_on_empty', 'retry_on_invalid', 'backoff', 'broadcast_enable', 'strict', 'baudrate'):
        if key in kw:
            s = copy.deepcopy(scn)
            s['client']['kwargs'].pop(key)
            yield s
    sched = scn.get('sched') or {}
    if sched.get('choices'):
        ch = sched['choices']
        for cand in sh.without_chunks(ch):
            s = copy.deepcopy(scn)
            s['sched']['choices'] = cand
            yield s
        for i, c in enumerate(ch):
            if c:
                s = copy.deepcopy(scn)
                s['sched']['choices'][i] = 0
                yield s
    if sched.get('preempt_lines'):
        for cand in sh.without_chunks(sched['preempt_lines']):
            s = copy.deepcopy(scn)
            s['sched']['preempt_lines'] = cand
            yield s
